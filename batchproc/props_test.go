package batchproc

import (
	"encoding/json"
	"errors"
	"fmt"
	"os"
	"os/exec"
	"runtime"
	"sort"
	"strings"
	"testing"

	"pgregory.net/rapid"

	"verif/kit"
)

// classify derives evidence labels and the non-triviality facts from a history.
type facts struct {
	split, merged, mixedOutcome, cancelPartial, timerFlushAfterSize, multiCtx, twoContrib, oddLast bool
	labels                                                                                         []string
}

func classify(h *History) facts {
	var f facts
	carr := h.carriers()
	for r, es := range carr {
		if len(es) >= 2 {
			f.split = true
			ok, bad := false, false
			for _, e := range es {
				if e.Outcome != nil {
					bad = true
				} else if e.Returned {
					ok = true
				}
			}
			if ok && bad {
				f.mixedOutcome = true
			}
			if h.ctxEverEnded(r) {
				f.cancelPartial = true
			}
		}
	}
	sizeFlushSeen := false
	for _, e := range h.Exports {
		reqs := map[int]bool{}
		groups := map[int]bool{}
		var order []int
		for _, it := range e.Items {
			if r, ok := h.Owner[it.ID]; ok {
				if !reqs[r] {
					order = append(order, h.Sc.Reqs[r].Ctx)
				}
				reqs[r] = true
				groups[h.Sc.Reqs[r].Ctx] = true
			}
		}
		if len(reqs) >= 2 {
			f.merged = true
		}
		if len(groups) >= 2 {
			f.multiCtx = true
			if len(reqs) == 2 {
				f.twoContrib = true
			}
			if len(order) >= 3 {
				last := order[len(order)-1]
				same := true
				for _, g := range order[:len(order)-1] {
					if g != order[0] {
						same = false
					}
				}
				if same && last != order[0] {
					f.oddLast = true
				}
			}
		}
		if h.Sc.Cfg.Size > 0 && len(e.Items) >= h.Sc.Cfg.Size {
			sizeFlushSeen = true
		} else if sizeFlushSeen && h.Sc.Cfg.Size > 0 && len(e.Items) < h.Sc.Cfg.Size && e.EnterStep < h.CleanupStep {
			f.timerFlushAfterSize = true
		}
	}
	add := func(c bool, l string) {
		if c {
			f.labels = append(f.labels, l)
		}
	}
	add(f.split, "request_split_across_exports")
	add(f.merged, "requests_merged_into_one_export")
	add(f.mixedOutcome, "request_with_mixed_export_outcomes")
	add(f.cancelPartial, "context_ended_while_partially_exported")
	add(f.timerFlushAfterSize, "timer_flush_after_size_flush")
	add(f.multiCtx, "multi_context_export")
	add(f.twoContrib, "two_contributor_multi_context_export")
	add(f.oddLast, "odd_context_last")
	if h.Sc.Chan > 0 {
		f.labels = append(f.labels, fmt.Sprintf("shard_channel_of_%d_slots", h.Sc.Chan))
		// how many calls were outstanding at once (by step)
		most := 0
		for _, c := range h.Callers {
			if !c.Started {
				continue
			}
			n := 0
			for _, o := range h.Callers {
				if o.Started && o.StartStep <= c.StartStep && (!o.Done || o.DoneStep > c.StartStep) {
					n++
				}
			}
			if n > most {
				most = n
			}
		}
		add(most > h.Sc.Chan+2, "more_outstanding_calls_than_channel_and_shard_hold")
	}
	kinds := map[int]bool{}
	for _, e := range h.Exports {
		var ee *ExportError
		if e.Outcome != nil && errors.As(e.Outcome, &ee) {
			kinds[ee.Kind] = true
		}
	}
	for k := range kinds {
		f.labels = append(f.labels, "export_failure:"+failKindNames[k%len(failKindNames)])
	}
	sharedSpan := false
	for _, e := range h.Exports {
		seen := map[string]int{}
		for _, it := range e.Items {
			if r, ok := h.Owner[it.ID]; ok {
				if g := h.Groups[h.Sc.Reqs[r].Ctx]; g != nil && g.SpanID != "" {
					if prev, ok := seen[g.SpanID]; ok && prev != g.ID {
						sharedSpan = true
					}
					seen[g.SpanID] = g.ID
				}
			}
		}
	}
	add(sharedSpan, "export_with_distinct_contexts_sharing_one_span")
	add(h.Sc.Gated, "gated_exports")
	add(h.Sc.HonourCancel, "next_consumer_honours_cancel")
	add(h.Sc.Cfg.Early, "early_return")
	add(len(h.Sc.Cfg.Keys) > 0, "metadata_keys")
	add(h.Stuck, "bubble_abandoned")
	if h.Sc.Retain {
		f.labels = append(f.labels, "next_consumer_keeps_and_modifies_batches")
	}
	if h.Sc.SmallIDs {
		f.labels = append(f.labels, "request_spans_share_a_span_id")
	}
	f.labels = append(f.labels, "signal="+h.Sc.Signal, fmt.Sprintf("max_concurrency=%d", h.Sc.Cfg.MaxConc), fmt.Sprintf("exports=%s", bucket(len(h.Exports))))
	refused := 0
	for _, c := range h.Callers {
		if h.refused(c) {
			refused++
		}
	}
	add(refused > 0, "request_refused_by_cardinality_limit")
	for _, st := range h.Sc.Steps {
		if st.Kind == StepShutdown {
			f.labels = append(f.labels, "explicit_shutdown_step")
			break
		}
	}
	for _, st := range h.Sc.Steps {
		if st.Kind == StepConsume && st.D > 0 {
			f.labels = append(f.labels, "consume_at_a_timer_instant")
			break
		}
	}
	for _, st := range h.Sc.Steps {
		if st.Kind == StepCancel {
			f.labels = append(f.labels, "cancel_step")
			break
		}
	}
	return f
}

func bucket(n int) string {
	switch {
	case n == 0:
		return "0"
	case n == 1:
		return "1"
	case n <= 3:
		return "2-3"
	case n <= 7:
		return "4-7"
	default:
		return ">=8"
	}
}

// shapeOf is the semantic shape of a scenario run: configuration class, the
// sequence of step kinds, and how requests mapped onto exports.
func shapeOf(h *History) string {
	var sb strings.Builder
	c := h.Sc.Cfg
	fmt.Fprintf(&sb, "%s s%d m%d t%d c%d e%v k%d l%d g%v|", h.Sc.Signal, c.Size, c.Max, c.TimeoutMs, c.MaxConc, c.Early, len(c.Keys), c.Limit, h.Sc.Gated)
	for _, st := range h.Sc.Steps {
		sb.WriteString(st.Kind[:2])
		if st.Kind == StepConsume {
			fmt.Fprintf(&sb, "%d", len(st.Reqs))
		}
	}
	sb.WriteString("|")
	for _, e := range h.Exports {
		reqs := map[int]bool{}
		for _, it := range e.Items {
			reqs[h.Owner[it.ID]] = true
		}
		fmt.Fprintf(&sb, "%d/%d%v,", len(e.Items), len(reqs), e.Outcome != nil)
	}
	return sb.String()
}

func sampleScenario(h *History) func() any {
	return func() any {
		var exps []string
		for _, e := range h.Exports {
			exps = append(exps, fmt.Sprintf("#%d:%d items t=%v err=%v", e.Idx, len(e.Items), e.EnterAt, e.Outcome != nil))
		}
		return map[string]any{"scenario": h.Sc.Summary(), "exports": exps}
	}
}

type propSpec struct {
	id         string
	profile    Profile
	verdict    func(h *History) string
	nontrivial func(f facts, h *History) bool
}

func sequentialScenario(sc *Scenario) bool {
	for _, st := range sc.Steps {
		if st.Kind == StepConsume && len(st.Reqs) > 1 {
			return false
		}
	}
	return true
}

var specs = map[string]propSpec{
	"C05": {
		id:         "C05",
		profile:    Profile{Gated: 30, AutoFail: true, Cancels: false, Shutdown: true, Conc: []int{0, 0, 1, 2}, EarlyPct: 40, SharedCtx: true, Concurrent: true, MetaPct: 25, DelayedConsume: 15, FailKinds: true, RetainPct: 25},
		verdict:    VerdictC05,
		nontrivial: func(f facts, h *History) bool { return f.split || f.merged },
	},
	"C06": {
		id:         "C06",
		profile:    Profile{Gated: 70, HonourCancel: 30, AutoFail: true, Cancels: true, Deadlines: true, Shutdown: true, Conc: []int{0, 0, 1, 2, 3}, EarlyPct: 15, SharedCtx: true, Concurrent: true, MetaPct: 20, DelayedConsume: 15, FailKinds: true},
		verdict:    VerdictC06,
		nontrivial: func(f facts, h *History) bool { return f.mixedOutcome || f.cancelPartial },
	},
	"C09": {
		id:         "C09",
		profile:    Profile{Gated: 0, Conc: []int{0}, EarlyPct: 30, Concurrent: true, MetaPct: 25, DelayedConsume: 35},
		verdict:    VerdictC09,
		nontrivial: func(f facts, h *History) bool { return f.timerFlushAfterSize },
	},
	"C10": {
		id:         "C10",
		profile:    Profile{Gated: 20, Meta: true, Conc: []int{0, 0, 1, 2}, EarlyPct: 30, Concurrent: true, Shutdown: true},
		verdict:    func(h *History) string { return VerdictC10(h, sequentialScenario(h.Sc)) },
		nontrivial: func(f facts, h *History) bool { return len(h.Sc.Cfg.Keys) > 0 && len(h.Exports) > 1 },
	},
	"C11": {
		id:         "C11",
		profile:    Profile{Gated: 85, HonourCancel: 30, Cancels: true, Deadlines: true, Shutdown: true, Conc: []int{0, 1, 1, 2, 3}, EarlyPct: 25, SharedCtx: true, Concurrent: true, MetaPct: 25, DelayedConsume: 15, FailKinds: true, RetainPct: 40},
		verdict:    VerdictC11,
		nontrivial: func(f facts, h *History) bool { return h.Sc.Gated && len(h.Exports) >= 2 },
	},
	"C18": {
		id:         "C18",
		profile:    Profile{Gated: 80, HonourCancel: 80, Cancels: true, Deadlines: true, Spans: true, Conc: []int{0, 0, 2}, EarlyPct: 10, SharedCtx: true, SharedSpan: 30, Concurrent: true, MetaPct: 20},
		verdict:    VerdictC18,
		nontrivial: func(f facts, h *History) bool { return f.twoContrib || f.oddLast },
	},
}

func runProp(t *testing.T, id string) {
	sp := specs[id]
	rec := kit.Get(id)
	rapid.Check(t, func(rt *rapid.T) {
		sc := GenScenario(rt, sp.profile)
		if id == "C10" && rapid.Bool().Draw(rt, "alsoconc") {
			sc.Cfg.MaxConc = 0
		}
		kit.SaveCurrent(id, sc)
		h := Run(t, sc)
		f := classify(h)
		rec.Case(sp.nontrivial(f, h), shapeOf(h), f.labels, sampleScenario(h))
		if msg := sp.verdict(h); msg != "" {
			rec.Fail(rt, sc, "%s\nscenario: %s", msg, sc.Summary())
		}
	})
}

func TestC05(t *testing.T) { runProp(t, "C05") }
func TestC06(t *testing.T) { runProp(t, "C06") }
func TestC09(t *testing.T) { runProp(t, "C09") }
func TestC10(t *testing.T) { runProp(t, "C10") }
func TestC11(t *testing.T) { runProp(t, "C11") }
func TestC18(t *testing.T) { runProp(t, "C18") }

// TestReplay re-executes saved scenarios (VERIF_REPLAY: file or directory)
// through the oracle of their property, without rapid. Because the Go
// scheduler decides races inside one consume group, a scenario is run up to
// 20 times; any failing run is a failure.
// replayPinned re-runs this test binary under taskset for one saved case.
func replayPinned(t *testing.T, id, path string, cpus int) bool {
	if os.Getenv("VERIF_PINNED") != "" {
		fmt.Printf("REPLAY-FAIL property=%s file=%s\nchild process sees %d CPUs, the case needs %d\n", id, path, runtime.NumCPU(), cpus)
		return false
	}
	cmd := exec.Command("taskset", "-c", fmt.Sprintf("0-%d", cpus-1), os.Args[0], "-test.run", "^TestReplay$", "-test.v", "-test.timeout", "600s")
	cmd.Env = append(os.Environ(), "VERIF_PINNED=1", "VERIF_REPLAY="+path, "VERIF_PROPERTY="+id)
	out, err := cmd.CombinedOutput()
	for _, l := range strings.Split(string(out), "\n") {
		if strings.HasPrefix(l, "REPLAY-START ") {
			continue // already printed by the parent
		}
		if l != "" && !strings.HasPrefix(l, "=== ") && !strings.HasPrefix(l, "--- ") && l != "PASS" && l != "FAIL" {
			fmt.Println(l)
		}
	}
	return err == nil
}

func TestReplay(t *testing.T) {
	only := os.Getenv("VERIF_PROPERTY")
	var ids []string
	for id := range specs {
		if only == "" || only == id {
			ids = append(ids, id)
		}
	}
	sort.Strings(ids)
	for _, id := range ids {
		cases, err := kit.LoadReplays(id)
		if err != nil {
			t.Fatalf("loading replays: %v", err)
		}
		var files []string
		for f := range cases {
			files = append(files, f)
		}
		sort.Strings(files)
		for _, path := range files {
			fmt.Printf("REPLAY-START property=%s file=%s\n", id, path)
			var probe struct {
				Goroutines int `json:"goroutines"`
			}
			_ = json.Unmarshal(cases[path], &probe)
			if probe.Goroutines > 0 {
				var st StressCase
				if err := json.Unmarshal(cases[path], &st); err != nil {
					t.Fatalf("%s: %v", path, err)
				}
				st.Rounds *= 5
				if m := runStress(&st); m != "" && m != inconclusive {
					fmt.Printf("REPLAY-FAIL property=%s file=%s\n%s\n", id, path, m)
					t.Errorf("%s: %s", path, m)
				} else {
					fmt.Printf("REPLAY-OK property=%s file=%s\n", id, path)
				}
				continue
			}
			var sc Scenario
			if err := json.Unmarshal(cases[path], &sc); err != nil {
				t.Fatalf("%s: %v", path, err)
			}
			if sc.Chan > 0 && sc.Chan != runtime.NumCPU() {
				// the scenario needs a shard channel of sc.Chan slots: replay it
				// in a child process pinned to that many CPUs (the child prints
				// the REPLAY-OK / REPLAY-FAIL line)
				if !replayPinned(t, id, path, sc.Chan) {
					t.Errorf("%s: failed in the child process pinned to %d CPUs", path, sc.Chan)
				}
				continue
			}
			msg, failures := "", 0
			for round := 0; round < 20; round++ {
				h := Run(t, &sc)
				if m := specs[id].verdict(h); m != "" {
					failures++
					msg = m
				}
			}
			if failures > 0 {
				fmt.Printf("REPLAY-FAIL property=%s file=%s (failed %d of 20 runs)\n%s\n", id, path, failures, msg)
				t.Errorf("%s: %s", path, msg)
			} else {
				fmt.Printf("REPLAY-OK property=%s file=%s\n", id, path)
			}
		}
	}
}

// FuzzScenario drives the scenario generator of the property named by
// VERIF_PROPERTY from the bytes of Go's coverage-guided fuzzer
// (rapid.MakeFuzz): the same generator and oracle as Test<ID>, but the search
// is steered by the branch coverage of the processor instead of rapid's random
// source. Thorough tier only; a failure is saved as an ordinary scenario file.
func FuzzScenario(f *testing.F) {
	id := os.Getenv("VERIF_PROPERTY")
	sp, ok := specs[id]
	if !ok {
		f.Skip("VERIF_PROPERTY names no scenario property")
	}
	rec := kit.Get(id)
	// rapid reads its draws from the fuzz bytes (eight per draw) and gives up
	// on an input that runs out: start from byte strings long enough for a
	// whole scenario (a fixed SHA-256 chain, so the corpus is deterministic)
	for i := 0; i < 32; i++ {
		f.Add(kit.SeedBytes(fmt.Sprintf("%s/%d", id, i), 4096))
	}
	f.Fuzz(func(t *testing.T, data []byte) {
		rapid.MakeFuzz(func(rt *rapid.T) {
			sc := GenScenario(rt, sp.profile)
			kit.SaveCurrent(id, sc)
			h := Run(t, sc)
			fc := classify(h)
			rec.Case(sp.nontrivial(fc, h), shapeOf(h), append(fc.labels, "fuzz:coverage_guided"), sampleScenario(h))
			if msg := sp.verdict(h); msg != "" {
				rec.Fail(rt, sc, "%s\nscenario: %s", msg, sc.Summary())
			}
		})(t, data)
	})
}
