package batchproc

import (
	"context"
	"errors"
	"fmt"
	"sort"
	"strings"
	"time"

	"go.opentelemetry.io/collector/consumer/consumererror"
)

// helpers ---------------------------------------------------------------

// Combination renders the combination of metadata values a request carries
// for the configured keys (case-insensitive; absent and empty list are the
// same - client.Metadata.Get returns nil for both - but [""] is distinct).
func Combination(keys []string, meta map[string][]string) string {
	var parts []string
	for _, k := range keys {
		lk := strings.ToLower(k)
		var vs []string
		for mk, mv := range meta {
			if strings.ToLower(mk) == lk {
				vs = mv
			}
		}
		if len(vs) == 0 {
			parts = append(parts, lk+"=<none>")
		} else {
			parts = append(parts, fmt.Sprintf("%s=%q", lk, vs))
		}
	}
	sort.Strings(parts)
	return strings.Join(parts, ";")
}

func (h *History) refused(c *Caller) bool {
	return c.Done && c.Err != nil && consumererror.IsPermanent(c.Err) && noExportErr(c.Err) && len(h.Sc.Cfg.Keys) > 0
}

// ctxEnded reports whether the request's context ended (cancel step or
// deadline) at or before the given step/time.
func (h *History) ctxEndedBy(req int, at time.Duration) bool {
	g := h.Groups[h.Sc.Reqs[req].Ctx]
	if g == nil {
		return false
	}
	if g.Cancelled && g.CancelAt <= at {
		return true
	}
	if g.DeadlineAt > 0 && g.DeadlineAt <= at {
		return true
	}
	return false
}

func (h *History) ctxEverEnded(req int) bool {
	g := h.Groups[h.Sc.Reqs[req].Ctx]
	if g == nil {
		return false
	}
	end := time.Duration(1 << 62)
	if len(h.Snaps) > 0 {
		end = h.Snaps[len(h.Snaps)-1].At
	}
	return g.Cancelled || (g.DeadlineAt > 0 && g.DeadlineAt <= end)
}

// carriers maps a request to the exports that carried its items.
func (h *History) carriers() map[int][]*Export {
	out := map[int][]*Export{}
	for _, e := range h.Exports {
		seen := map[int]bool{}
		for _, it := range e.Items {
			r, ok := h.Owner[it.ID]
			if ok && !seen[r] {
				seen[r] = true
				out[r] = append(out[r], e)
			}
		}
	}
	return out
}

func (h *History) hang() string {
	if h.SetupErr != nil {
		return "harness: " + h.SetupErr.Error()
	}
	return ""
}

// C05 ---------------------------------------------------------------------

// VerdictC05: every accepted item is passed to the next consumer exactly
// once, content and container identity intact; nothing duplicated, invented or
// lost - including items still buffered at Shutdown.
func VerdictC05(h *History) string {
	if h.Deadlock != "" {
		return "" // a deadlock is C11's verdict; nothing else was observed
	}
	if m := h.hang(); m != "" {
		return m
	}
	count := map[string]int{}
	for _, e := range h.Exports {
		for _, it := range e.Items {
			exp, ok := h.Expected[it.ID]
			if !ok {
				return fmt.Sprintf("export %d carries item %q that no request submitted (invented)", e.Idx, it.ID)
			}
			count[it.ID]++
			if count[it.ID] > 1 {
				return fmt.Sprintf("item %q was passed to the next consumer %d times (duplicated)", it.ID, count[it.ID])
			}
			if it.Content != exp.Content {
				return fmt.Sprintf("item %q changed content:\n  submitted %s\n  exported  %s", it.ID, exp.Content, it.Content)
			}
			if it.Container != exp.Container {
				return fmt.Sprintf("item %q lost the identity of its containers:\n  submitted under %s\n  exported under  %s", it.ID, exp.Container, it.Container)
			}
		}
	}
	for _, c := range h.Callers {
		if !c.Started || h.refused(c) || h.ctxEverEnded(c.Req) {
			continue // refused: none; context ended: at most once (checked above)
		}
		if h.Stuck && !h.ShutdownReturned {
			continue // a hang is C11's verdict; what was exported so far was checked above
		}
		for id, r := range h.Owner {
			if r == c.Req && count[id] != 1 {
				return fmt.Sprintf("item %q of accepted request %d was exported %d times (lost); Shutdown returned=%v", id, c.Req, count[id], h.ShutdownReturned)
			}
		}
	}
	return ""
}

// C06 ---------------------------------------------------------------------

// VerdictC06: each caller gets the true outcome of its own items.
func VerdictC06(h *History) string {
	if h.Deadlock != "" {
		return "" // a deadlock is C11's verdict; nothing else was observed
	}
	if m := h.hang(); m != "" {
		return m
	}
	carr := h.carriers()
	for _, c := range h.Callers {
		if !c.Started || c.Items == 0 {
			continue
		}
		if h.refused(c) {
			continue
		}
		ended := h.ctxEverEnded(c.Req)
		if !c.Done {
			if ended {
				return fmt.Sprintf("request %d: its context ended but Consume never returned", c.Req)
			}
			return fmt.Sprintf("request %d: Consume never returned although every export was released and Shutdown was called (lost response)", c.Req)
		}
		// at most once even when the caller left early
		if h.Sc.Cfg.Early {
			if c.Err != nil && !ended {
				return fmt.Sprintf("request %d: early_return is on but Consume returned %v", c.Req, c.Err)
			}
			// (with more callers than the shard's channel holds a request is
			// queued only when a slot frees up: no instant is demanded)
			if !ended && c.DoneAt != c.StartAt && h.Sc.Chan == 0 {
				return fmt.Sprintf("request %d: early_return is on but Consume returned at %v, called at %v", c.Req, c.DoneAt, c.StartAt)
			}
			continue
		}
		exps := carr[c.Req]
		// did the context end before the call returned?
		g := h.Groups[h.Sc.Reqs[c.Req].Ctx]
		ctxErrFirst := false
		if g != nil {
			if g.Cancelled && g.CancelStep <= c.DoneStep && g.CancelAt <= c.DoneAt {
				ctxErrFirst = true
			}
			if g.DeadlineAt > 0 && g.DeadlineAt <= c.DoneAt {
				ctxErrFirst = true
			}
		}
		exported := 0
		allReturnedBefore := true
		anyFail := false
		for _, e := range exps {
			for _, it := range e.Items {
				if h.Owner[it.ID] == c.Req {
					exported++
				}
			}
			if !e.Returned || e.ExitStep > c.DoneStep {
				allReturnedBefore = false
			}
			if e.Returned && e.ExitStep <= c.DoneStep && e.Outcome != nil {
				anyFail = true
			}
		}
		complete := exported == c.Items && allReturnedBefore
		if c.Err == nil {
			if !complete {
				return fmt.Sprintf("request %d: Consume returned nil at step %d although only %d of its %d items had been exported by returned export calls", c.Req, c.DoneStep, exported, c.Items)
			}
			if anyFail {
				return fmt.Sprintf("request %d: Consume returned nil although an export that carried its items failed", c.Req)
			}
			continue
		}
		// c.Err != nil
		if complete && !anyFail && !ctxErrFirst {
			return fmt.Sprintf("request %d: Consume returned %v although every export that carried its items succeeded and its context was alive", c.Req, c.Err)
		}
		if !complete && !ctxErrFirst {
			return fmt.Sprintf("request %d: Consume returned (%v) at step %d before all its items were exported (%d of %d) and its context was alive", c.Req, c.Err, c.DoneStep, exported, c.Items)
		}
		// error attribution
		wrapsCarrying := false
		for _, e := range h.Exports {
			if e.Outcome == nil {
				continue
			}
			var ee *ExportError
			if !errors.As(e.Outcome, &ee) {
				continue
			}
			carries := false
			for _, x := range exps {
				if x == e {
					carries = true
				}
			}
			if errors.Is(c.Err, e.Outcome) {
				if !carries {
					return fmt.Sprintf("request %d: its error wraps the failure of export %d, which carried none of its items", c.Req, e.Idx)
				}
				wrapsCarrying = true
			}
		}
		if anyFail && !wrapsCarrying && !ctxErrFirst {
			hasScripted := false
			for _, e := range exps {
				var ee *ExportError
				if e.Outcome != nil && errors.As(e.Outcome, &ee) {
					hasScripted = true
				}
			}
			if hasScripted {
				return fmt.Sprintf("request %d: an export carrying its items failed but the returned error %v does not wrap that failure", c.Req, c.Err)
			}
		}
		if ctxErrFirst && !complete {
			if !errors.Is(c.Err, context.Canceled) && !errors.Is(c.Err, context.DeadlineExceeded) {
				return fmt.Sprintf("request %d: its context ended first but the returned error %v is not the context error", c.Req, c.Err)
			}
			// prompt: same virtual instant as the context end
			end := time.Duration(-1)
			if g.Cancelled {
				end = g.CancelAt
			}
			if g.DeadlineAt > 0 && (end < 0 || g.DeadlineAt < end) {
				end = g.DeadlineAt
			}
			if c.StartAt > end {
				end = c.StartAt
			}
			if c.DoneAt != end {
				return fmt.Sprintf("request %d: context ended at %v but Consume returned at %v (not promptly)", c.Req, end, c.DoneAt)
			}
		}
	}
	// at most once, always
	count := map[string]int{}
	for _, e := range h.Exports {
		for _, it := range e.Items {
			count[it.ID]++
			if count[it.ID] > 1 {
				return fmt.Sprintf("item %q delivered %d times", it.ID, count[it.ID])
			}
		}
	}
	return ""
}

// C09 ---------------------------------------------------------------------

// VerdictC09: size limits and flush deadlines (upper bounds only).
func VerdictC09(h *History) string {
	if h.Deadlock != "" {
		return "" // a deadlock is C11's verdict; nothing else was observed
	}
	if m := h.hang(); m != "" {
		return m
	}
	cfg := h.Sc.Cfg
	for _, e := range h.Exports {
		if len(e.Items) == 0 {
			return fmt.Sprintf("export %d is empty", e.Idx)
		}
		if cfg.Max > 0 && len(e.Items) > cfg.Max {
			return fmt.Sprintf("export %d holds %d items, send_batch_max_size is %d", e.Idx, len(e.Items), cfg.Max)
		}
	}
	// The deadline clauses presuppose that the concurrency limit is not
	// holding exports back: only judged when concurrency is unlimited and
	// exports return at once.
	if cfg.MaxConc != 0 || h.Sc.Gated {
		return ""
	}
	timeout := time.Duration(cfg.TimeoutMs) * time.Millisecond
	immediate := cfg.TimeoutMs == 0 || cfg.Size == 0
	enter := map[string]*Export{}
	for _, e := range h.Exports {
		for _, it := range e.Items {
			enter[it.ID] = e
		}
	}
	judged := func(r int) bool {
		c := h.Callers[r]
		return c.Started && !h.ctxEverEnded(r) && !h.refused(c) && !(c.Done && c.Err != nil && len(cfg.Keys) > 0)
	}
	for id, r := range h.Owner {
		c := h.Callers[r]
		if !judged(r) {
			continue
		}
		e := enter[id]
		if e == nil {
			continue // loss is C05's verdict
		}
		if immediate {
			if e.EnterAt != c.StartAt {
				return fmt.Sprintf("item %q accepted at %v was exported at %v; with timeout=%v and send_batch_size=%d it must be exported immediately", id, c.StartAt, e.EnterAt, timeout, cfg.Size)
			}
			continue
		}
		if e.EnterAt > c.StartAt+timeout {
			return fmt.Sprintf("item %q accepted at %v was exported at %v, later than the timeout %v allows", id, c.StartAt, e.EnterAt, timeout)
		}
	}
	// "exported as soon as the buffer reaches send_batch_size": at every
	// quiescent point fewer than send_batch_size items are buffered per
	// batcher, i.e. per metadata combination (none at all in the immediate
	// modes).
	combos := map[string]bool{}
	for r := range h.Sc.Reqs {
		combos[Combination(cfg.Keys, h.Sc.Reqs[r].Meta)] = true
	}
	for _, s := range h.Snaps {
		if s.Step >= h.CleanupStep {
			break
		}
		for combo := range combos {
			acc, exp := 0, 0
			for _, c := range h.Callers {
				if judged(c.Req) && c.StartStep <= s.Step && Combination(cfg.Keys, h.Sc.Reqs[c.Req].Meta) == combo {
					acc += c.Items
				}
			}
			for _, e := range h.Exports {
				if e.EnterStep <= s.Step {
					for _, it := range e.Items {
						r := h.Owner[it.ID]
						if judged(r) && Combination(cfg.Keys, h.Sc.Reqs[r].Meta) == combo {
							exp++
						}
					}
				}
			}
			buffered := acc - exp
			if immediate && buffered != 0 {
				return fmt.Sprintf("at step %d (t=%v) %d items of combination [%s] are still buffered although timeout=%v / send_batch_size=%d demand immediate export", s.Step, s.At, buffered, combo, timeout, cfg.Size)
			}
			if !immediate && buffered >= cfg.Size {
				return fmt.Sprintf("at step %d (t=%v) %d items of combination [%s] are buffered, which reaches send_batch_size=%d", s.Step, s.At, buffered, combo, cfg.Size)
			}
		}
	}
	return ""
}

// C10 ---------------------------------------------------------------------

// VerdictC10: tenant isolation and the cardinality limit. sequential is true
// when every consume step of the scenario issued exactly one request (then the
// refusal rule is an iff).
func VerdictC10(h *History, sequential bool) string {
	if h.Deadlock != "" {
		return "" // a deadlock is C11's verdict; nothing else was observed
	}
	if m := h.hang(); m != "" {
		return m
	}
	cfg := h.Sc.Cfg
	if len(cfg.Keys) == 0 {
		return ""
	}
	admitted := map[string]bool{}
	exportedOf := map[int]int{}
	for _, e := range h.Exports {
		combo := ""
		for _, it := range e.Items {
			r, ok := h.Owner[it.ID]
			if !ok {
				continue
			}
			exportedOf[r]++
			c := Combination(cfg.Keys, h.Sc.Reqs[r].Meta)
			if combo == "" {
				combo = c
			} else if combo != c {
				return fmt.Sprintf("export %d mixes tenants: items of combinations [%s] and [%s]", e.Idx, combo, c)
			}
		}
		if combo == "" {
			continue
		}
		admitted[combo] = true
		// the metadata visible to the export call agrees on every configured key
		var any *Request
		for _, it := range e.Items {
			if r, ok := h.Owner[it.ID]; ok {
				any = &h.Sc.Reqs[r]
				break
			}
		}
		for _, k := range cfg.Keys {
			lk := strings.ToLower(k)
			var want []string
			for mk, mv := range any.Meta {
				if strings.ToLower(mk) == lk {
					want = mv
				}
			}
			got := e.Meta[lk]
			if len(want) == 0 && len(got) == 0 {
				continue
			}
			if fmt.Sprintf("%q", want) != fmt.Sprintf("%q", got) {
				return fmt.Sprintf("export %d: client metadata %s=%q visible to the export call, the batch's combination has %q", e.Idx, lk, got, want)
			}
		}
	}
	if cfg.Limit > 0 && len(admitted) > cfg.Limit {
		return fmt.Sprintf("%d distinct combinations were admitted, metadata_cardinality_limit is %d", len(admitted), cfg.Limit)
	}
	// refusals
	seen := map[string]bool{} // combinations admitted so far, in arrival order (sequential scenarios)
	order := make([]*Caller, 0, len(h.Callers))
	for _, c := range h.Callers {
		if c.Started {
			order = append(order, c)
		}
	}
	sort.SliceStable(order, func(i, j int) bool { return order[i].StartStep < order[j].StartStep })
	for _, c := range order {
		combo := Combination(cfg.Keys, h.Sc.Reqs[c.Req].Meta)
		isRefusal := c.Done && c.Err != nil && !errors.Is(c.Err, context.Canceled) && !errors.Is(c.Err, context.DeadlineExceeded) && exportedOf[c.Req] == 0 && noExportErr(c.Err)
		if isRefusal {
			if !consumererror.IsPermanent(c.Err) {
				return fmt.Sprintf("request %d (combination [%s]) was refused with a non-permanent error: %v", c.Req, combo, c.Err)
			}
		}
		if c.Done && c.Err != nil && consumererror.IsPermanent(c.Err) && noExportErr(c.Err) && exportedOf[c.Req] > 0 {
			return fmt.Sprintf("request %d was refused (%v) but %d of its items were exported", c.Req, c.Err, exportedOf[c.Req])
		}
		if sequential {
			wantRefused := cfg.Limit > 0 && !seen[combo] && len(seen) >= cfg.Limit
			gotRefused := c.Done && c.Err != nil && consumererror.IsPermanent(c.Err) && noExportErr(c.Err)
			if wantRefused != gotRefused {
				if wantRefused {
					return fmt.Sprintf("request %d brings combination [%s] when %d are admitted (limit %d) but was not refused (err=%v)", c.Req, combo, len(seen), cfg.Limit, c.Err)
				}
				return fmt.Sprintf("request %d with combination [%s] was refused (%v) although %d of %d slots are used and seen=%v", c.Req, combo, c.Err, len(seen), cfg.Limit, seen[combo])
			}
			if !gotRefused {
				seen[combo] = true
			}
		}
	}
	// Any schedule: slots are never given back, so a combination that was
	// refused once can never be admitted in the same run. A request that is
	// refused although items of its own combination are exported (a racing
	// first arrival of the SAME combination took the last slot) brought no
	// "further combination" - its refusal discards telemetry of an admitted
	// tenant.
	for _, c := range order {
		combo := Combination(cfg.Keys, h.Sc.Reqs[c.Req].Meta)
		if c.Done && c.Err != nil && consumererror.IsPermanent(c.Err) && noExportErr(c.Err) && exportedOf[c.Req] == 0 && admitted[combo] {
			return fmt.Sprintf("request %d was refused (%v) although its combination [%s] is admitted: other requests of the same combination were exported", c.Req, c.Err, combo)
		}
	}
	return ""
}

func noExportErr(err error) bool {
	var ee *ExportError
	return !errors.As(err, &ee)
}

// C11 ---------------------------------------------------------------------

// VerdictC11: bounded concurrency, drain on shutdown, no deadlock / leak.
func VerdictC11(h *History) string {
	if h.Deadlock != "" {
		return "deadlock: no goroutine of the scenario can run any more and a processor goroutine waits for a lock (state unchanged across two observations; virtual time cannot advance)\n" + h.Deadlock
	}
	if m := h.hang(); m != "" {
		return m
	}
	cfg := h.Sc.Cfg
	if cfg.MaxConc > 0 {
		// per metadata combination, at the entry of every export
		for _, e := range h.Exports {
			combo := h.exportCombo(e)
			in := 0
			for _, o := range h.Exports {
				if o.Idx == e.Idx || h.exportCombo(o) != combo {
					continue
				}
				// o in flight when e entered?
				if o.EnterStep < e.EnterStep || (o.EnterStep == e.EnterStep && o.Idx < e.Idx) {
					if !o.Returned || o.ExitStep > e.EnterStep || (o.ExitStep == e.EnterStep && o.ExitAt > e.EnterAt) {
						in++
					}
				}
			}
			if in+1 > cfg.MaxConc {
				// equal-step ambiguity: only flag when o was certainly in flight
				certain := 0
				for _, o := range h.Exports {
					if o.Idx == e.Idx || h.exportCombo(o) != combo {
						continue
					}
					if o.EnterStep < e.EnterStep && (!o.Returned || o.ExitStep > e.EnterStep) {
						certain++
					}
				}
				if certain+1 > cfg.MaxConc {
					return fmt.Sprintf("export %d entered the next consumer while %d other export calls of the same combination were in flight; max_concurrency is %d", e.Idx, certain, cfg.MaxConc)
				}
			}
		}
	}
	if !h.ShutdownReturned {
		return fmt.Sprintf("Shutdown did not return after every export had been released (deadlock); goroutines:\n%s", h.Stacks)
	}
	for _, c := range h.Callers {
		if c.Started && !c.Done {
			return fmt.Sprintf("request %d is still blocked in Consume after every export was released and Shutdown returned:\n%s", c.Req, h.Stacks)
		}
	}
	// Shutdown returns only after every accepted item was exported and every
	// export call returned
	for _, e := range h.Exports {
		if !e.Returned {
			return fmt.Sprintf("Shutdown returned while export %d was still in flight", e.Idx)
		}
		if e.ExitStep > h.ShutdownRetStep {
			return fmt.Sprintf("Shutdown returned at step %d, export %d returned at step %d", h.ShutdownRetStep, e.Idx, e.ExitStep)
		}
	}
	exported := map[string]bool{}
	for _, e := range h.Exports {
		for _, it := range e.Items {
			exported[it.ID] = true
		}
	}
	for id, r := range h.Owner {
		c := h.Callers[r]
		if !c.Started || h.refused(c) || h.ctxEverEnded(r) {
			continue
		}
		if !exported[id] {
			return fmt.Sprintf("Shutdown returned but item %q of request %d, accepted before Shutdown, was never exported", id, r)
		}
	}
	if h.Leaked > 0 {
		return fmt.Sprintf("%d processor goroutine(s) left behind after Shutdown:\n%s", h.Leaked, h.Stacks)
	}
	return ""
}

func (h *History) exportCombo(e *Export) string {
	for _, it := range e.Items {
		if r, ok := h.Owner[it.ID]; ok {
			return Combination(h.Sc.Cfg.Keys, h.Sc.Reqs[r].Meta)
		}
	}
	return ""
}

// C18 ---------------------------------------------------------------------

// VerdictC18: one caller's context never decides the fate of another
// caller's items.
func VerdictC18(h *History) string {
	if h.Deadlock != "" {
		return "" // a deadlock is C11's verdict; nothing else was observed
	}
	if m := h.hang(); m != "" {
		return m
	}
	carr := h.carriers()
	for _, e := range h.Exports {
		groups := map[int]bool{}
		for _, it := range e.Items {
			if r, ok := h.Owner[it.ID]; ok {
				groups[h.Sc.Reqs[r].Ctx] = true
			}
		}
		var gids []int
		for g := range groups {
			gids = append(gids, g)
		}
		sort.Ints(gids)
		if len(gids) >= 2 {
			if e.Marker >= 0 {
				return fmt.Sprintf("export %d carries items of request contexts %v but is exported under the context of ctx%d (its value is visible through the export context)", e.Idx, gids, e.Marker)
			}
			if e.ErrAtEntry != nil || e.ErrSeen != nil {
				return fmt.Sprintf("export %d carries items of request contexts %v and its export context ended: %v", e.Idx, gids, firstErr(e.ErrAtEntry, e.ErrSeen))
			}
			if e.Returned && e.Outcome != nil && !e.Scripted {
				return fmt.Sprintf("export %d (contexts %v) was cancelled through its context: %v", e.Idx, gids, e.Outcome)
			}
			if h.Sc.Spans {
				es, ok := h.Spans[e.SpanID]
				if !ok {
					return fmt.Sprintf("export %d: no export span recorded for its context", e.Idx)
				}
				if es.Parent != "" {
					return fmt.Sprintf("export %d (contexts %v): export span is a child of span %s instead of a root span with links", e.Idx, gids, es.Parent)
				}
				spans := map[string]bool{}
				for _, g := range gids {
					gs := h.Groups[g].SpanID
					spans[gs] = true
					if !contains(es.Links, gs) {
						return fmt.Sprintf("export %d (contexts %v): export span does not link to the span of request context ctx%d", e.Idx, gids, g)
					}
					if !contains(h.Spans[gs].Links, e.SpanID) {
						return fmt.Sprintf("export %d (contexts %v): span of request context ctx%d received no link back to the export span", e.Idx, gids, g)
					}
				}
				// one link per contributing request: between the number of
				// distinct request spans and the number of distinct contexts
				// (several contexts may carry one span)
				if len(es.Links) < len(spans) || len(es.Links) > len(gids) {
					return fmt.Sprintf("export %d (contexts %v): export span has %d links for %d distinct contributing request spans / %d contexts", e.Idx, gids, len(es.Links), len(spans), len(gids))
				}
			}
		} else if len(gids) == 1 && h.Sc.Spans {
			es, ok := h.Spans[e.SpanID]
			if !ok {
				return fmt.Sprintf("export %d: no export span recorded for its context", e.Idx)
			}
			want := h.Groups[gids[0]].SpanID
			if es.Parent != want {
				return fmt.Sprintf("export %d is fed by the single request context ctx%d but its export span has parent %q, not the request span %s", e.Idx, gids[0], es.Parent, want)
			}
		}
	}
	// a caller whose context is alive never receives an error caused by
	// another caller's cancellation
	for _, c := range h.Callers {
		if !c.Started || !c.Done || c.Err == nil || h.refused(c) {
			continue
		}
		if h.ctxEndedBy(c.Req, c.DoneAt) {
			continue
		}
		if (errors.Is(c.Err, context.Canceled) || errors.Is(c.Err, context.DeadlineExceeded)) && noExportErr(c.Err) {
			return fmt.Sprintf("request %d (context alive) received %v: the cancellation of another caller decided the fate of its items", c.Req, c.Err)
		}
		_ = carr
	}
	// ... and its items are not skipped
	exported := map[string]bool{}
	for _, e := range h.Exports {
		for _, it := range e.Items {
			exported[it.ID] = true
		}
	}
	anyEnded := false
	for _, g := range h.Groups {
		if g.Cancelled || (g.DeadlineAt > 0 && len(h.Snaps) > 0 && g.DeadlineAt <= h.Snaps[len(h.Snaps)-1].At) {
			anyEnded = true
		}
	}
	if h.ShutdownReturned || anyEnded {
		// after the cleanup phase (every export released, Shutdown called) the
		// items of a caller whose context is alive must have been exported and
		// the caller answered - whatever happened to other callers' contexts
		for id, r := range h.Owner {
			c := h.Callers[r]
			if c.Started && !h.refused(c) && !h.ctxEverEnded(r) && !exported[id] {
				return fmt.Sprintf("item %q of request %d (context alive) was never exported (skipped); another caller's context had ended: %v", id, r, anyEnded)
			}
		}
	}
	if anyEnded {
		for _, c := range h.Callers {
			if c.Started && !c.Done && !h.ctxEverEnded(c.Req) {
				return fmt.Sprintf("request %d (context alive) was never answered after another caller's context ended:\n%s", c.Req, h.Stacks)
			}
		}
	}
	return ""
}

func firstErr(es ...error) error {
	for _, e := range es {
		if e != nil {
			return e
		}
	}
	return nil
}

func contains(xs []string, x string) bool {
	for _, y := range xs {
		if y == x {
			return true
		}
	}
	return false
}
