package batchproc

import (
	"os"
	"runtime"

	"pgregory.net/rapid"
)

// Profile selects the scenario distribution of a property.
type Profile struct {
	Gated        int // percent of scenarios with gated exports
	HonourCancel int // percent of gated scenarios whose next consumer honours cancellation
	AutoFail     bool
	Cancels      bool
	Deadlines    bool
	Shutdown     bool // explicit shutdown steps
	Meta         bool // metadata keys / client metadata (always)
	MetaPct      int  // percent of scenarios with metadata keys when Meta is false
	Spans        bool
	Conc         []int
	EarlyPct     int
	SharedCtx    bool // several requests may share one context
	SharedSpan   int  // percent of new contexts that carry the request span of an earlier context
	// DelayedConsume: percent of consume steps whose requests arrive D virtual
	// ms later - exactly when the flush timer or a deadline fires
	DelayedConsume int
	MaxReqs        int
	Concurrent     bool // consume steps may issue several requests at once
	// FailKinds: failing exports may return context errors of the downstream
	// side or permanent errors instead of an ordinary error
	FailKinds bool
	// RetainPct: percent of scenarios whose next consumer keeps the batches it
	// accepted and modifies them afterwards (it owns them)
	RetainPct int
}

// fullChannel reports whether this process generates scenarios with more
// outstanding calls than the shard's input channel holds (the driver pins such
// a process to a few CPUs: the channel has runtime.NumCPU() slots).
func fullChannel() bool { return os.Getenv("VERIF_FULL_CHANNEL") != "" }

// pct is an unbiased percentage draw (rapid's integer generators favour small
// values, so IntRange(0,99) < p is not a p% event).
func pct(t *rapid.T, label string, p int) bool {
	v := 0
	for i := 0; i < 7; i++ {
		v <<= 1
		if rapid.Bool().Draw(t, label) {
			v |= 1
		}
	}
	return v*100/128 < p
}

var advances = []int{1, 199, 200, 201, 500, 999, 1000, 1001, 3000, 4999, 5000, 5001, 7000}

var metaKeysChoices = [][]string{{"tenant"}, {"env", "tenant", "Region"}, {"Tenant", "env"}, {"TENANT"}, {"region", "Env", "tenant"}}

// crossValues is ONE small pool shared by all keys: the value of one key equals
// the value of another key, or the name of a key (key/value confusion in
// whatever the processor derives its shard identity from).
var crossValues = []string{"a", "b", "a", "b", "env", "tenant"}

// tenantValues are value lists that a joined or normalised rendering would
// confuse (the D1 lesson applied to metadata): multi-valued vs the same text in
// one value, order, empty strings, case.
var tenantValues = [][]string{
	nil, {"a"}, {"b"}, {"a", "b"}, {"a "}, {"a, b"}, {" a"}, {"a,b"}, {"b", "a"}, {""}, {"", ""}, {"a", ""}, {"A"}, {"a b"}, {"a", "b", "c"}, {"a, b", "c"}, {"a", "b, c"},
	// single values that read like the rendering of a list or of nothing
	// (seeded change C10f keys the shards by a textual encoding), twins under
	// whitespace trimming, Unicode normalisation, percent / plus
	// decoding, NUL truncation (seeded change C10e trims optional whitespace)
	{"[]"}, {"[\"a\"]"}, {"[\"a\",\"b\"]"}, {"[a b]"}, {"null"}, {"<nil>"}, {"a\",\"b"},
	{"a\t"}, {"a\n"}, {" "}, {"\u00e9"}, {"e\u0301"}, {"a%20b"}, {"a+b"}, {"a\x00"}, {"a", " b"}, {"a ", "b"},
}

func genMeta(t *rapid.T, i int) map[string][]string {
	md := map[string][]string{}
	if pct(t, "crossmeta", 30) {
		// single values drawn from a pool shared across the keys
		for _, k := range []string{"tenant", "env", "region"} {
			if rapid.IntRange(0, 5).Draw(t, "crosshas") > 0 {
				md[k] = []string{rapid.SampledFrom(crossValues).Draw(t, "crossv")}
			}
		}
		md["other"] = []string{rapid.SampledFrom([]string{"x", "a", "b"}).Draw(t, "otherv")}
		return md
	}
	vs := tenantValues[rapid.IntRange(0, len(tenantValues)-1).Draw(t, "tenantv")]
	if vs != nil {
		key := rapid.SampledFrom([]string{"tenant", "TENANT", "Tenant"}).Draw(t, "tenantk")
		md[key] = append([]string(nil), vs...)
	}
	switch rapid.IntRange(0, 4).Draw(t, "envv") {
	case 1:
		md["env"] = []string{"p"}
	case 2:
		md["env"] = []string{"q"}
	case 3:
		md["ENV"] = []string{"p", "q"}
	case 4:
		md["env"] = []string{"p, q"}
	}
	if rapid.Bool().Draw(t, "regionv") {
		md["region"] = []string{"eu"}
	}
	// a key that is not configured must never matter
	md["other"] = []string{rapid.SampledFrom([]string{"x", "y", "z"}).Draw(t, "otherv")}
	return md
}

func genShape(t *rapid.T, signal string) []ResShape {
	nr := rapid.IntRange(1, 3).Draw(t, "nres")
	var out []ResShape
	for r := 0; r < nr; r++ {
		rs := ResShape{NoURL: rapid.IntRange(0, 3).Draw(t, "resnourl") == 0}
		ns := rapid.IntRange(0, 3).Draw(t, "nscope")
		for s := 0; s < ns; s++ {
			sc := ScopeShape{NoURL: rapid.IntRange(0, 3).Draw(t, "scnourl") == 0}
			if signal == "metrics" {
				nm := rapid.IntRange(0, 3).Draw(t, "nmetric")
				for m := 0; m < nm; m++ {
					sc.Metrics = append(sc.Metrics, rapid.IntRange(0, 3).Draw(t, "npoints"))
				}
			} else {
				sc.Items = rapid.IntRange(0, 4).Draw(t, "nitems")
			}
			rs.Scopes = append(rs.Scopes, sc)
		}
		out = append(out, rs)
	}
	return out
}

// GenScenario draws a scenario.
func GenScenario(t *rapid.T, p Profile) *Scenario {
	sc := &Scenario{Signal: rapid.SampledFrom([]string{"traces", "logs", "metrics"}).Draw(t, "signal")}
	sc.Cfg.Size = rapid.IntRange(0, 7).Draw(t, "size")
	if sc.Cfg.Size == 0 {
		sc.Cfg.Max = rapid.SampledFrom([]int{0, 1, 2, 5}).Draw(t, "max")
	} else {
		sc.Cfg.Max = rapid.SampledFrom([]int{0, sc.Cfg.Size, sc.Cfg.Size + 1, sc.Cfg.Size + 3}).Draw(t, "max")
	}
	sc.Cfg.TimeoutMs = rapid.SampledFrom([]int{0, 200, 1000, 1000, 5000}).Draw(t, "timeout")
	conc := p.Conc
	if len(conc) == 0 {
		conc = []int{0}
	}
	sc.Cfg.MaxConc = rapid.SampledFrom(conc).Draw(t, "conc")
	if fullChannel() {
		// callers can only pile up behind a shard that is stalled, i.e. one
		// waiting for an export slot
		sc.Chan = runtime.NumCPU()
		sc.Cfg.MaxConc = rapid.SampledFrom([]int{1, 1, 2}).Draw(t, "fullconc")
	}
	sc.Cfg.Early = pct(t, "early", p.EarlyPct)
	meta := p.Meta || (p.MetaPct > 0 && pct(t, "meta", p.MetaPct))
	if meta {
		sc.Cfg.Keys = rapid.SampledFrom(metaKeysChoices).Draw(t, "keys")
		sc.Cfg.Limit = rapid.IntRange(0, 3).Draw(t, "limit")
		if !p.Meta {
			sc.Cfg.Limit = rapid.SampledFrom([]int{0, 0, 3, 2}).Draw(t, "limit2")
		}
	}
	sc.Gated = pct(t, "gated", p.Gated)
	if fullChannel() && pct(t, "fullgated", 85) {
		sc.Gated = true
	}
	if sc.Gated {
		sc.HonourCancel = pct(t, "honour", p.HonourCancel)
	}
	if p.RetainPct > 0 {
		sc.Retain = pct(t, "retain", p.RetainPct)
	}
	sc.Spans = p.Spans
	if p.Spans {
		sc.SmallIDs = rapid.Bool().Draw(t, "smallids")
	}
	maxReqs := p.MaxReqs
	if maxReqs == 0 {
		maxReqs = 8
	}
	nreq := rapid.IntRange(1, maxReqs).Draw(t, "nreq")
	if fullChannel() {
		nreq = rapid.IntRange(sc.Chan+3, sc.Chan+8).Draw(t, "fullnreq")
	}
	nextCtx := 0
	for i := 0; i < nreq; i++ {
		r := Request{Shape: genShape(t, sc.Signal)}
		if p.SharedCtx && i > 0 && rapid.IntRange(0, 3).Draw(t, "sharectx") == 0 {
			prev := sc.Reqs[rapid.IntRange(0, i-1).Draw(t, "sharewith")]
			r.Ctx = prev.Ctx
			r.SpanOf = prev.SpanOf
			r.Meta = prev.Meta
			r.DeadlineMs = prev.DeadlineMs
		} else {
			r.Ctx = nextCtx
			r.SpanOf = nextCtx
			if p.SharedSpan > 0 && nextCtx > 0 && pct(t, "sharespan", p.SharedSpan) {
				r.SpanOf = sc.Reqs[rapid.IntRange(0, i-1).Draw(t, "spanof")].SpanOf
			}
			nextCtx++
			if meta {
				r.Meta = genMeta(t, i)
			}
			if p.Deadlines && rapid.IntRange(0, 5).Draw(t, "deadline") == 0 {
				r.DeadlineMs = rapid.SampledFrom([]int{1, 200, 999, 1000, 2500}).Draw(t, "deadlinems")
			}
		}
		sc.Reqs = append(sc.Reqs, r)
	}
	if !sc.Gated && p.AutoFail {
		n := rapid.IntRange(0, 3).Draw(t, "nautofail")
		for i := 0; i < n; i++ {
			sc.AutoFail = append(sc.AutoFail, rapid.IntRange(0, 8).Draw(t, "autofail"))
		}
		if p.FailKinds && n > 0 && pct(t, "autofailkind", 30) {
			sc.AutoFailKind = rapid.IntRange(1, 3).Draw(t, "autofailkindv")
		}
	}
	// steps
	next := 0
	shutdown := false
	nsteps := rapid.IntRange(1, 24).Draw(t, "nsteps")
	for s := 0; s < nsteps; s++ {
		kind := rapid.IntRange(0, 9).Draw(t, "stepkind")
		switch {
		case kind <= 3 && next < nreq && !shutdown:
			n := 1
			if p.Concurrent {
				n = rapid.IntRange(1, 3).Draw(t, "groupsize")
			}
			st := Step{Kind: StepConsume}
			if p.DelayedConsume > 0 && pct(t, "delayed", p.DelayedConsume) {
				st.D = rapid.SampledFrom([]int{200, 1000, 5000, 199, 1, 400}).Draw(t, "consumedelay")
			}
			for x := 0; x < n && next < nreq; x++ {
				st.Reqs = append(st.Reqs, next)
				next++
			}
			sc.Steps = append(sc.Steps, st)
		case kind <= 5:
			sc.Steps = append(sc.Steps, Step{Kind: StepAdvance, D: rapid.SampledFrom(advances).Draw(t, "advance")})
		case kind <= 7 && sc.Gated:
			st := Step{Kind: StepComplete, Export: rapid.IntRange(0, 2).Draw(t, "which"), Fail: rapid.IntRange(0, 2).Draw(t, "fail") == 0}
			if st.Fail && p.FailKinds && pct(t, "failkind", 30) {
				st.FailKind = rapid.IntRange(1, 3).Draw(t, "failkindv")
			}
			sc.Steps = append(sc.Steps, st)
		case kind == 8 && p.Cancels && nextCtx > 0:
			sc.Steps = append(sc.Steps, Step{Kind: StepCancel, Ctx: rapid.IntRange(0, nextCtx-1).Draw(t, "cancelctx")})
		case kind == 9 && p.Shutdown && !shutdown && rapid.IntRange(0, 2).Draw(t, "doshutdown") == 0:
			sc.Steps = append(sc.Steps, Step{Kind: StepShutdown})
			shutdown = true
		default:
			if next < nreq && !shutdown {
				sc.Steps = append(sc.Steps, Step{Kind: StepConsume, Reqs: []int{next}})
				next++
			} else {
				sc.Steps = append(sc.Steps, Step{Kind: StepAdvance, D: rapid.SampledFrom(advances).Draw(t, "advance2")})
			}
		}
	}
	return sc
}
