package batchproc

import (
	"context"
	"fmt"
	"regexp"
	"runtime"
	"sort"
	"strings"
	"sync"
	"testing"
	"testing/synctest"
	"time"

	"go.opentelemetry.io/collector/client"
	"go.opentelemetry.io/collector/component"
	"go.opentelemetry.io/collector/component/componenttest"
	"go.opentelemetry.io/collector/consumer"
	"go.opentelemetry.io/collector/consumer/consumererror"
	"go.opentelemetry.io/collector/pdata/plog"
	"go.opentelemetry.io/collector/pdata/pmetric"
	"go.opentelemetry.io/collector/pdata/ptrace"
	"go.opentelemetry.io/collector/processor/processortest"
	sdktrace "go.opentelemetry.io/otel/sdk/trace"
	"go.opentelemetry.io/otel/sdk/trace/tracetest"
	"go.opentelemetry.io/otel/trace"

	cbp "github.com/open-telemetry/otel-arrow/collector/processor/concurrentbatchprocessor"
)

type markerKey struct{}

// Caller is what happened to one Consume call.
type Caller struct {
	Req       int
	Items     int
	Started   bool
	StartStep int
	StartAt   time.Duration
	Done      bool
	DoneStep  int
	DoneAt    time.Duration
	Err       error
}

// Export is one call into the next consumer.
type Export struct {
	Idx       int
	EnterStep int
	EnterAt   time.Duration
	Returned  bool
	ExitStep  int
	ExitAt    time.Duration
	Items     []Item
	// context observations
	Marker     int // context group whose marker is visible through ctx.Value, -1 if none
	Meta       map[string][]string
	SpanID     string // span carried by the export context
	ErrAtEntry error
	ErrSeen    error // first non-nil ctx.Err() observed while the call was in flight
	Outcome    error // what the next consumer returned
	Scripted   bool  // Outcome was dictated by the scenario (complete/fail step or auto outcome)

	ctx  context.Context
	gate chan error
}

// CtxGroup is one caller context.
type CtxGroup struct {
	ID         int
	Cancelled  bool // by a cancel step
	CancelStep int
	CancelAt   time.Duration
	DeadlineAt time.Duration // 0 = none
	SpanID     string

	ctx    context.Context
	cancel context.CancelFunc
	span   trace.Span
}

// Snapshot is taken at every quiescent point (after a step, once every
// goroutine of the bubble is durably blocked).
type Snapshot struct {
	Step     int
	At       time.Duration
	InFlight int
}

// SpanRec is a recorded span.
type SpanRec struct {
	Name   string
	SpanID string
	Parent string
	Links  []string
}

// History is everything the harness observed.
type History struct {
	Sc               *Scenario
	Callers          []*Caller
	Exports          []*Export
	Groups           map[int]*CtxGroup
	Snaps            []Snapshot
	Expected         map[string]Item // item id -> fingerprints taken before Consume
	Owner            map[string]int  // item id -> request
	ShutdownStarted  bool
	ShutdownStep     int
	ShutdownReturned bool
	ShutdownRetStep  int
	CleanupStep      int // first step index of the cleanup phase
	Leaked           int
	Stacks           string
	Spans            map[string]SpanRec
	Stuck            bool // bubble abandoned: something never returned
	SetupErr         error
}

type sink struct {
	h     *History
	mu    *sync.Mutex
	t0    time.Time
	step  *int
	sc    *Scenario
	fails map[int]bool
}

func (s *sink) Capabilities() consumer.Capabilities { return consumer.Capabilities{} }

func (s *sink) ConsumeTraces(ctx context.Context, td ptrace.Traces) error {
	return s.export(ctx, TraceItems(td))
}
func (s *sink) ConsumeLogs(ctx context.Context, ld plog.Logs) error {
	return s.export(ctx, LogItems(ld))
}
func (s *sink) ConsumeMetrics(ctx context.Context, md pmetric.Metrics) error {
	return s.export(ctx, MetricItems(md))
}

// ExportError is the failure returned by export k.
type ExportError struct{ K, Kind int }

func (e *ExportError) Error() string { return fmt.Sprintf("scripted failure of export %d", e.K) }

// Unwrap makes a failure of kind 1 / 2 a context error of the DOWNSTREAM side.
func (e *ExportError) Unwrap() error {
	switch e.Kind {
	case 1:
		return context.DeadlineExceeded
	case 2:
		return context.Canceled
	}
	return nil
}

func exportFailure(k, kind int) error {
	e := &ExportError{K: k, Kind: kind}
	if kind == 3 {
		return consumererror.NewPermanent(e)
	}
	return e
}

func (s *sink) export(ctx context.Context, items []Item) error {
	e := &Export{Items: items, Marker: -1, ctx: ctx, gate: make(chan error, 1), Meta: map[string][]string{}}
	if v, ok := ctx.Value(markerKey{}).(int); ok {
		e.Marker = v
	}
	info := client.FromContext(ctx)
	for _, k := range s.sc.Cfg.Keys {
		lk := strings.ToLower(k)
		e.Meta[lk] = info.Metadata.Get(lk)
	}
	if sc := trace.SpanContextFromContext(ctx); sc.IsValid() {
		e.SpanID = sc.SpanID().String()
	}
	e.ErrAtEntry = ctx.Err()
	s.mu.Lock()
	e.Idx = len(s.h.Exports)
	e.EnterStep = *s.step
	e.EnterAt = time.Since(s.t0)
	s.h.Exports = append(s.h.Exports, e)
	auto := !s.sc.Gated
	fail := s.fails[e.Idx]
	s.mu.Unlock()

	var err error
	scripted := true
	if auto {
		if fail {
			err = exportFailure(e.Idx, s.sc.AutoFailKind)
		}
	} else if s.sc.HonourCancel {
		select {
		case err = <-e.gate:
		case <-ctx.Done():
			err = ctx.Err()
			scripted = false
		}
	} else {
		err = <-e.gate
	}
	s.mu.Lock()
	e.Returned = true
	e.ExitStep = *s.step
	e.ExitAt = time.Since(s.t0)
	e.Outcome = err
	e.Scripted = scripted
	if e.ErrSeen == nil {
		e.ErrSeen = ctx.Err()
	}
	s.mu.Unlock()
	return err
}

var bubbleRe = regexp.MustCompile(`synctest bubble (\d+)`)

// Run executes the scenario in a synctest bubble and returns the history. A
// bubble in which something never returns is abandoned (its root parks on a
// channel created outside the bubble), which turns hangs into ordinary oracle
// failures.
func Run(t *testing.T, sc *Scenario) *History {
	verdict := make(chan *History, 1)
	park := make(chan struct{})
	go func() {
		defer func() {
			if r := recover(); r != nil {
				select {
				case verdict <- &History{Sc: sc, SetupErr: fmt.Errorf("bubble panicked: %v", r)}:
				default:
				}
			}
		}()
		synctest.Test(t, func(t *testing.T) {
			h := runInBubble(sc)
			verdict <- h
			if h.Stuck {
				<-park // never returns: the bubble is abandoned
			}
		})
	}()
	return <-verdict
}

func runInBubble(sc *Scenario) *History {
	h := &History{Sc: sc, Groups: map[int]*CtxGroup{}, Expected: map[string]Item{}, Owner: map[string]int{}, Spans: map[string]SpanRec{}}
	var mu sync.Mutex
	step := 0
	t0 := time.Now()

	f := cbp.NewFactory()
	cfg := f.CreateDefaultConfig().(*cbp.Config)
	cfg.SendBatchSize = uint32(sc.Cfg.Size)
	cfg.SendBatchMaxSize = uint32(sc.Cfg.Max)
	cfg.Timeout = time.Duration(sc.Cfg.TimeoutMs) * time.Millisecond
	cfg.MaxConcurrency = uint32(sc.Cfg.MaxConc)
	cfg.EarlyReturn = sc.Cfg.Early
	cfg.MetadataKeys = sc.Cfg.Keys
	cfg.MetadataCardinalityLimit = uint32(sc.Cfg.Limit)
	if err := cfg.Validate(); err != nil {
		h.SetupErr = fmt.Errorf("invalid config generated: %w", err)
		return h
	}
	recorder := tracetest.NewSpanRecorder()
	tp := sdktrace.NewTracerProvider(sdktrace.WithSpanProcessor(recorder))
	tracer := tp.Tracer("harness")
	set := processortest.NewNopSettings(f.Type())
	set.TelemetrySettings.TracerProvider = tp

	sk := &sink{h: h, mu: &mu, t0: t0, step: &step, sc: sc, fails: map[int]bool{}}
	for _, k := range sc.AutoFail {
		sk.fails[k] = true
	}
	var comp component.Component
	var consume func(ctx context.Context, req int) error
	var err error
	bg := context.Background()
	switch sc.Signal {
	case "traces":
		p, e := f.CreateTraces(bg, set, cfg, sk)
		comp, err = p, e
		consume = func(ctx context.Context, req int) error {
			td := BuildTraces(req, sc.Reqs[req])
			regItems(h, &mu, req, TraceItems(td))
			return p.ConsumeTraces(ctx, td)
		}
	case "logs":
		p, e := f.CreateLogs(bg, set, cfg, sk)
		comp, err = p, e
		consume = func(ctx context.Context, req int) error {
			ld := BuildLogs(req, sc.Reqs[req])
			regItems(h, &mu, req, LogItems(ld))
			return p.ConsumeLogs(ctx, ld)
		}
	default:
		p, e := f.CreateMetrics(bg, set, cfg, sk)
		comp, err = p, e
		consume = func(ctx context.Context, req int) error {
			md := BuildMetrics(req, sc.Reqs[req])
			regItems(h, &mu, req, MetricItems(md))
			return p.ConsumeMetrics(ctx, md)
		}
	}
	if err != nil {
		h.SetupErr = err
		return h
	}
	if err := comp.Start(bg, componenttest.NewNopHost()); err != nil {
		h.SetupErr = err
		return h
	}

	h.Callers = make([]*Caller, len(sc.Reqs))
	for i := range sc.Reqs {
		h.Callers[i] = &Caller{Req: i, Items: sc.Reqs[i].Items()}
	}
	type spanBase struct {
		ctx  context.Context
		span trace.Span
	}
	spanBases := map[int]spanBase{}
	group := func(i int) *CtxGroup {
		r := sc.Reqs[i]
		g := h.Groups[r.Ctx]
		if g != nil {
			return g
		}
		g = &CtxGroup{ID: r.Ctx}
		base := bg
		if sc.Spans {
			// the request span may be shared by several distinct contexts
			sb, ok := spanBases[r.SpanOf]
			if !ok {
				sb.ctx, sb.span = tracer.Start(bg, fmt.Sprintf("request-span%d", r.SpanOf))
				spanBases[r.SpanOf] = sb
			}
			base = sb.ctx
			g.span = sb.span
			g.SpanID = sb.span.SpanContext().SpanID().String()
		}
		ctx := context.WithValue(base, markerKey{}, r.Ctx)
		if len(r.Meta) > 0 {
			ctx = client.NewContext(ctx, client.Info{Metadata: client.NewMetadata(r.Meta)})
		}
		if r.DeadlineMs > 0 {
			ctx, g.cancel = context.WithTimeout(ctx, time.Duration(r.DeadlineMs)*time.Millisecond)
			g.DeadlineAt = time.Since(t0) + time.Duration(r.DeadlineMs)*time.Millisecond
		} else {
			ctx, g.cancel = context.WithCancel(ctx)
		}
		g.ctx = ctx
		h.Groups[r.Ctx] = g
		return g
	}
	snapshot := func() {
		mu.Lock()
		in := 0
		for _, e := range h.Exports {
			if !e.Returned {
				in++
				if e.ErrSeen == nil {
					e.ErrSeen = e.ctx.Err()
				}
			}
		}
		h.Snaps = append(h.Snaps, Snapshot{Step: step, At: time.Since(t0), InFlight: in})
		mu.Unlock()
	}
	waiting := func() []*Export {
		var ws []*Export
		for _, e := range h.Exports {
			if !e.Returned && len(e.gate) == 0 {
				ws = append(ws, e)
			}
		}
		return ws
	}
	startShutdown := func() {
		mu.Lock()
		if h.ShutdownStarted {
			mu.Unlock()
			return
		}
		h.ShutdownStarted = true
		h.ShutdownStep = step
		mu.Unlock()
		go func() {
			_ = comp.Shutdown(bg)
			mu.Lock()
			h.ShutdownReturned = true
			h.ShutdownRetStep = step
			mu.Unlock()
		}()
	}

	for _, st := range sc.Steps {
		mu.Lock()
		step++
		cur := step
		mu.Unlock()
		switch st.Kind {
		case StepConsume:
			for _, i := range st.Reqs {
				if i < 0 || i >= len(sc.Reqs) || h.Callers[i].Started || h.ShutdownStarted {
					continue
				}
				// The shard's input channel holds runtime.NumCPU() requests. A
				// caller that blocks on a full channel has not been accepted yet,
				// and the properties speak about accepted requests: never have
				// more outstanding calls than the channel can hold.
				mu.Lock()
				outstanding := 0
				for _, oc := range h.Callers {
					if oc.Started && !oc.Done {
						outstanding++
					}
				}
				mu.Unlock()
				if outstanding >= runtime.NumCPU()-1 && sc.Chan == 0 {
					continue
				}
				c := h.Callers[i]
				g := group(i)
				mu.Lock()
				c.Started = true
				c.StartStep = cur
				c.StartAt = time.Since(t0) + time.Duration(st.D)*time.Millisecond
				mu.Unlock()
				delay := time.Duration(st.D) * time.Millisecond
				go func(i int, ctx context.Context) {
					if delay > 0 {
						// the call is made at the very instant other timers
						// (the flush timer, deadlines) fire
						time.Sleep(delay)
					}
					err := consume(ctx, i)
					mu.Lock()
					c.Done = true
					c.Err = err
					c.DoneStep = step
					c.DoneAt = time.Since(t0)
					mu.Unlock()
				}(i, g.ctx)
			}
			if st.D > 0 {
				time.Sleep(time.Duration(st.D) * time.Millisecond)
			}
		case StepAdvance:
			time.Sleep(time.Duration(st.D) * time.Millisecond)
		case StepComplete:
			mu.Lock()
			ws := waiting()
			mu.Unlock()
			if st.Export >= 0 && st.Export < len(ws) {
				e := ws[st.Export]
				if st.Fail {
					e.gate <- exportFailure(e.Idx, st.FailKind)
				} else {
					e.gate <- nil
				}
			}
		case StepCancel:
			if g := h.Groups[st.Ctx]; g != nil && !g.Cancelled {
				mu.Lock()
				g.Cancelled = true
				g.CancelStep = cur
				g.CancelAt = time.Since(t0)
				mu.Unlock()
				g.cancel()
			}
		case StepShutdown:
			startShutdown()
		}
		synctest.Wait()
		snapshot()
	}

	// cleanup phase: Shutdown (if the scenario did not call it), then release
	// every waiting export until none is left.
	mu.Lock()
	step++
	h.CleanupStep = step
	mu.Unlock()
	startShutdown()
	synctest.Wait()
	snapshot()
	for round := 0; round < 200; round++ {
		mu.Lock()
		step++
		ws := waiting()
		mu.Unlock()
		for _, e := range ws {
			e.gate <- nil
		}
		synctest.Wait()
		snapshot()
		if len(ws) == 0 {
			break
		}
	}

	// final observation - caller contexts are still open, so a caller that is
	// blocked here is a genuine hang, not something the cleanup produced.
	mu.Lock()
	stuck := !h.ShutdownReturned
	for _, c := range h.Callers {
		if c.Started && !c.Done {
			stuck = true
		}
	}
	mu.Unlock()
	buf := make([]byte, 1<<18)
	n := runtime.Stack(buf, true)
	all := strings.Split(string(buf[:n]), "\n\n")
	me := ""
	if m := bubbleRe.FindStringSubmatch(all[0]); m != nil {
		me = m[0]
	}
	for _, gs := range all[1:] {
		if me != "" && !strings.Contains(strings.SplitN(gs, "\n", 2)[0], me) {
			continue // another (abandoned) bubble or the test runner
		}
		if strings.Contains(gs, "concurrentbatchprocessor.") {
			h.Leaked++
			if len(h.Stacks) < 6000 {
				h.Stacks += gs + "\n\n"
			}
		}
	}
	if h.Leaked > 0 {
		stuck = true
	}
	h.Stuck = stuck

	// end request spans and collect what the tracer provider recorded
	var gids []int
	for id := range h.Groups {
		gids = append(gids, id)
	}
	sort.Ints(gids)
	for _, id := range gids {
		g := h.Groups[id]
		if g.span != nil {
			g.span.End()
		}
	}
	for _, s := range recorder.Ended() {
		r := SpanRec{Name: s.Name(), SpanID: s.SpanContext().SpanID().String()}
		if s.Parent().IsValid() {
			r.Parent = s.Parent().SpanID().String()
		}
		for _, l := range s.Links() {
			r.Links = append(r.Links, l.SpanContext.SpanID().String())
		}
		h.Spans[r.SpanID] = r
	}
	for _, id := range gids {
		h.Groups[id].cancel()
	}
	if !stuck {
		synctest.Wait()
	}
	return h
}

func regItems(h *History, mu *sync.Mutex, req int, items []Item) {
	mu.Lock()
	for _, it := range items {
		h.Expected[it.ID] = it
		h.Owner[it.ID] = req
	}
	mu.Unlock()
}
