package batchproc

import (
	"context"
	"encoding/binary"
	"fmt"
	"regexp"
	"runtime"
	"sort"
	"strings"
	"sync"
	"testing"
	"testing/synctest"
	"time"

	"go.opentelemetry.io/collector/client"
	"go.opentelemetry.io/collector/component"
	"go.opentelemetry.io/collector/component/componenttest"
	"go.opentelemetry.io/collector/consumer"
	"go.opentelemetry.io/collector/consumer/consumererror"
	"go.opentelemetry.io/collector/pdata/plog"
	"go.opentelemetry.io/collector/pdata/pmetric"
	"go.opentelemetry.io/collector/pdata/ptrace"
	"go.opentelemetry.io/collector/processor/processortest"
	sdktrace "go.opentelemetry.io/otel/sdk/trace"
	"go.opentelemetry.io/otel/sdk/trace/tracetest"
	"go.opentelemetry.io/otel/trace"

	cbp "github.com/open-telemetry/otel-arrow/collector/processor/concurrentbatchprocessor"
)

type markerKey struct{}

// Caller is what happened to one Consume call.
type Caller struct {
	Req       int
	Items     int
	Started   bool
	StartStep int
	StartAt   time.Duration
	Done      bool
	DoneStep  int
	DoneAt    time.Duration
	Err       error
}

// Export is one call into the next consumer.
type Export struct {
	Idx       int
	EnterStep int
	EnterAt   time.Duration
	Returned  bool
	ExitStep  int
	ExitAt    time.Duration
	Items     []Item
	// context observations
	Marker     int // context group whose marker is visible through ctx.Value, -1 if none
	Meta       map[string][]string
	SpanID     string // span carried by the export context
	ErrAtEntry error
	ErrSeen    error // first non-nil ctx.Err() observed while the call was in flight
	Outcome    error // what the next consumer returned
	Scripted   bool  // Outcome was dictated by the scenario (complete/fail step or auto outcome)

	ctx  context.Context
	gate chan error
}

// CtxGroup is one caller context.
type CtxGroup struct {
	ID         int
	Cancelled  bool // by a cancel step
	CancelStep int
	CancelAt   time.Duration
	DeadlineAt time.Duration // 0 = none
	SpanID     string

	ctx    context.Context
	cancel context.CancelFunc
	span   trace.Span
}

// Snapshot is taken at every quiescent point (after a step, once every
// goroutine of the bubble is durably blocked).
type Snapshot struct {
	Step     int
	At       time.Duration
	InFlight int
}

// SpanRec is a recorded span.
type SpanRec struct {
	Name   string
	SpanID string
	Parent string
	Links  []string
}

// History is everything the harness observed.
type History struct {
	Sc               *Scenario
	Callers          []*Caller
	Exports          []*Export
	Groups           map[int]*CtxGroup
	Snaps            []Snapshot
	Expected         map[string]Item // item id -> fingerprints taken before Consume
	Owner            map[string]int  // item id -> request
	ShutdownStarted  bool
	ShutdownStep     int
	ShutdownReturned bool
	ShutdownRetStep  int
	CleanupStep      int // first step index of the cleanup phase
	Leaked           int
	Stacks           string
	Spans            map[string]SpanRec
	Stuck            bool // bubble abandoned: something never returned
	// Deadlock: the bubble froze on a lock before the scenario ended (Run's
	// watchdog); the history holds nothing else then
	Deadlock string
	SetupErr error
}

type sink struct {
	h     *History
	mu    *sync.Mutex
	t0    time.Time
	step  *int
	sc    *Scenario
	fails map[int]bool
}

func (s *sink) Capabilities() consumer.Capabilities { return consumer.Capabilities{} }

// The next consumer OWNS the batch it is handed (the collector's ownership
// rule for pipelines: after the hand-over the previous component neither
// reads nor writes the data, "as it may be concurrently modified by the new
// owner"). In Retain scenarios the sink behaves like a queueing consumer: it
// keeps the batch and modifies it on a goroutine of its own after a
// successful return. The oracles work on the deep copy taken at entry; what
// this mode adds is that a processor that still touches the batch afterwards
// is reported by the race detector (C11, -race jobs).
func (s *sink) ConsumeTraces(ctx context.Context, td ptrace.Traces) error {
	return s.export(ctx, TraceItems(td), func() {
		if td.ResourceSpans().Len() > 0 {
			td.ResourceSpans().At(0).Resource().Attributes().PutStr("owned-by", "next consumer")
		}
		td.ResourceSpans().RemoveIf(func(ptrace.ResourceSpans) bool { return true })
	})
}
func (s *sink) ConsumeLogs(ctx context.Context, ld plog.Logs) error {
	return s.export(ctx, LogItems(ld), func() {
		if ld.ResourceLogs().Len() > 0 {
			ld.ResourceLogs().At(0).Resource().Attributes().PutStr("owned-by", "next consumer")
		}
		ld.ResourceLogs().RemoveIf(func(plog.ResourceLogs) bool { return true })
	})
}
func (s *sink) ConsumeMetrics(ctx context.Context, md pmetric.Metrics) error {
	return s.export(ctx, MetricItems(md), func() {
		if md.ResourceMetrics().Len() > 0 {
			md.ResourceMetrics().At(0).Resource().Attributes().PutStr("owned-by", "next consumer")
		}
		md.ResourceMetrics().RemoveIf(func(pmetric.ResourceMetrics) bool { return true })
	})
}

// ExportError is the failure returned by export k.
type ExportError struct{ K, Kind int }

func (e *ExportError) Error() string { return fmt.Sprintf("scripted failure of export %d", e.K) }

// Unwrap makes a failure of kind 1 / 2 a context error of the DOWNSTREAM side.
func (e *ExportError) Unwrap() error {
	switch e.Kind {
	case 1:
		return context.DeadlineExceeded
	case 2:
		return context.Canceled
	}
	return nil
}

func exportFailure(k, kind int) error {
	e := &ExportError{K: k, Kind: kind}
	if kind == 3 {
		return consumererror.NewPermanent(e)
	}
	return e
}

func (s *sink) export(ctx context.Context, items []Item, mutate func()) error {
	e := &Export{Items: items, Marker: -1, ctx: ctx, gate: make(chan error, 1), Meta: map[string][]string{}}
	if v, ok := ctx.Value(markerKey{}).(int); ok {
		e.Marker = v
	}
	info := client.FromContext(ctx)
	for _, k := range s.sc.Cfg.Keys {
		lk := strings.ToLower(k)
		e.Meta[lk] = info.Metadata.Get(lk)
	}
	if sc := trace.SpanContextFromContext(ctx); sc.IsValid() {
		e.SpanID = spanKey(sc)
	}
	e.ErrAtEntry = ctx.Err()
	s.mu.Lock()
	e.Idx = len(s.h.Exports)
	e.EnterStep = *s.step
	e.EnterAt = time.Since(s.t0)
	s.h.Exports = append(s.h.Exports, e)
	auto := !s.sc.Gated
	fail := s.fails[e.Idx]
	s.mu.Unlock()

	var err error
	scripted := true
	if auto {
		if fail {
			err = exportFailure(e.Idx, s.sc.AutoFailKind)
		}
	} else if s.sc.HonourCancel {
		select {
		case err = <-e.gate:
		case <-ctx.Done():
			err = ctx.Err()
			scripted = false
		}
	} else {
		err = <-e.gate
	}
	s.mu.Lock()
	e.Returned = true
	e.ExitStep = *s.step
	e.ExitAt = time.Since(s.t0)
	e.Outcome = err
	e.Scripted = scripted
	if e.ErrSeen == nil {
		e.ErrSeen = ctx.Err()
	}
	s.mu.Unlock()
	if err == nil && s.sc.Retain {
		go mutate()
	}
	return err
}

var bubbleRe = regexp.MustCompile(`synctest bubble (\d+)`)

// Run executes the scenario in a synctest bubble and returns the history. A
// bubble in which something never returns is abandoned (its root parks on a
// channel created outside the bubble), which turns hangs into ordinary oracle
// failures.
func Run(t *testing.T, sc *Scenario) *History {
	verdict := make(chan *History, 1)
	tag := make(chan string, 1)
	park := make(chan struct{})
	go func() {
		defer func() {
			if r := recover(); r != nil {
				select {
				case verdict <- &History{Sc: sc, SetupErr: fmt.Errorf("bubble panicked: %v", r)}:
				default:
				}
			}
		}()
		synctest.Test(t, func(t *testing.T) {
			buf := make([]byte, 256)
			if m := bubbleRe.FindString(string(buf[:runtime.Stack(buf, false)])); m != "" {
				tag <- m
			}
			h := runInBubble(sc)
			verdict <- h
			if h.Stuck {
				<-park // never returns: the bubble is abandoned
			}
		})
	}()
	// A goroutine that waits for a sync.Mutex is not "durably blocked" for
	// synctest: when processor goroutines deadlock on a mutex, synctest.Wait
	// never returns and neither does the bubble. The watchdog below looks at
	// the bubble every few seconds of wall time; the verdict is NOT the time
	// that passed but the state it finds: no goroutine of the bubble is
	// running or runnable, one of them is waiting for a lock inside processor
	// code, and two seconds later the picture is exactly the same. Virtual time
	// cannot advance in that state, so nothing can ever wake the bubble up.
	me := ""
	tick := time.NewTicker(stallProbe)
	defer tick.Stop()
	for {
		select {
		case h := <-verdict:
			return h
		case m := <-tag:
			me = m
		case <-tick.C:
			if me == "" {
				continue
			}
			first := frozenBubble(me)
			if first == "" {
				continue
			}
			time.Sleep(2 * time.Second)
			select {
			case h := <-verdict:
				return h
			default:
			}
			if frozenBubble(me) == first {
				return &History{Sc: sc, Groups: map[int]*CtxGroup{}, Expected: map[string]Item{}, Owner: map[string]int{}, Spans: map[string]SpanRec{}, Stuck: true, Deadlock: first}
			}
		}
	}
}

// stallProbe is how often the watchdog looks at a bubble that has not
// reported back (a scenario takes about a millisecond).
const stallProbe = 4 * time.Second

var goroutineHead = regexp.MustCompile(`^goroutine (\d+) \[([^\]]*)\]`)

// frozenBubble returns a description of the bubble when it can never make
// progress again (see Run), and "" otherwise.
func frozenBubble(tag string) string {
	buf := make([]byte, 8<<20)
	n := runtime.Stack(buf, true)
	var sig []string
	lockWait := false
	for _, gs := range strings.Split(string(buf[:n]), "\n\n") {
		head := strings.SplitN(gs, "\n", 2)[0]
		if !strings.Contains(head, tag) {
			continue
		}
		m := goroutineHead.FindStringSubmatch(head)
		if m == nil {
			continue
		}
		state := m[2]
		if strings.HasPrefix(state, "running") || strings.HasPrefix(state, "runnable") || strings.HasPrefix(state, "syscall") {
			return ""
		}
		lines := strings.Split(gs, "\n")
		top := ""
		if len(lines) > 1 {
			top = strings.TrimSpace(lines[1])
		}
		if (strings.HasPrefix(state, "sync.Mutex.Lock") || strings.HasPrefix(state, "sync.RWMutex") || strings.HasPrefix(state, "semacquire")) && strings.Contains(gs, "concurrentbatchprocessor.") {
			lockWait = true
			sig = append(sig, "goroutine "+m[1]+" waits for a lock:\n"+gs)
		} else {
			sig = append(sig, "goroutine "+m[1]+" ["+strings.SplitN(state, ",", 2)[0]+"] "+top)
		}
	}
	if !lockWait {
		return ""
	}
	sort.Strings(sig)
	return strings.Join(sig, "\n")
}

func runInBubble(sc *Scenario) *History {
	h := &History{Sc: sc, Groups: map[int]*CtxGroup{}, Expected: map[string]Item{}, Owner: map[string]int{}, Spans: map[string]SpanRec{}}
	var mu sync.Mutex
	step := 0
	t0 := time.Now()

	f := cbp.NewFactory()
	cfg := f.CreateDefaultConfig().(*cbp.Config)
	cfg.SendBatchSize = uint32(sc.Cfg.Size)
	cfg.SendBatchMaxSize = uint32(sc.Cfg.Max)
	cfg.Timeout = time.Duration(sc.Cfg.TimeoutMs) * time.Millisecond
	cfg.MaxConcurrency = uint32(sc.Cfg.MaxConc)
	cfg.EarlyReturn = sc.Cfg.Early
	cfg.MetadataKeys = sc.Cfg.Keys
	cfg.MetadataCardinalityLimit = uint32(sc.Cfg.Limit)
	if err := cfg.Validate(); err != nil {
		h.SetupErr = fmt.Errorf("invalid config generated: %w", err)
		return h
	}
	recorder := tracetest.NewSpanRecorder()
	tpOpts := []sdktrace.TracerProviderOption{sdktrace.WithSpanProcessor(recorder)}
	if sc.SmallIDs {
		tpOpts = append(tpOpts, sdktrace.WithIDGenerator(&perTraceIDs{next: map[trace.TraceID]uint64{}}))
	}
	tp := sdktrace.NewTracerProvider(tpOpts...)
	tracer := tp.Tracer("harness")
	set := processortest.NewNopSettings(f.Type())
	set.TelemetrySettings.TracerProvider = tp

	sk := &sink{h: h, mu: &mu, t0: t0, step: &step, sc: sc, fails: map[int]bool{}}
	for _, k := range sc.AutoFail {
		sk.fails[k] = true
	}
	var comp component.Component
	var consume func(ctx context.Context, req int) error
	var err error
	bg := context.Background()
	switch sc.Signal {
	case "traces":
		p, e := f.CreateTraces(bg, set, cfg, sk)
		comp, err = p, e
		consume = func(ctx context.Context, req int) error {
			td := BuildTraces(req, sc.Reqs[req])
			regItems(h, &mu, req, TraceItems(td))
			return p.ConsumeTraces(ctx, td)
		}
	case "logs":
		p, e := f.CreateLogs(bg, set, cfg, sk)
		comp, err = p, e
		consume = func(ctx context.Context, req int) error {
			ld := BuildLogs(req, sc.Reqs[req])
			regItems(h, &mu, req, LogItems(ld))
			return p.ConsumeLogs(ctx, ld)
		}
	default:
		p, e := f.CreateMetrics(bg, set, cfg, sk)
		comp, err = p, e
		consume = func(ctx context.Context, req int) error {
			md := BuildMetrics(req, sc.Reqs[req])
			regItems(h, &mu, req, MetricItems(md))
			return p.ConsumeMetrics(ctx, md)
		}
	}
	if err != nil {
		h.SetupErr = err
		return h
	}
	if err := comp.Start(bg, componenttest.NewNopHost()); err != nil {
		h.SetupErr = err
		return h
	}

	h.Callers = make([]*Caller, len(sc.Reqs))
	for i := range sc.Reqs {
		h.Callers[i] = &Caller{Req: i, Items: sc.Reqs[i].Items()}
	}
	type spanBase struct {
		ctx  context.Context
		span trace.Span
	}
	spanBases := map[int]spanBase{}
	group := func(i int) *CtxGroup {
		r := sc.Reqs[i]
		g := h.Groups[r.Ctx]
		if g != nil {
			return g
		}
		g = &CtxGroup{ID: r.Ctx}
		base := bg
		if sc.Spans {
			// the request span may be shared by several distinct contexts
			sb, ok := spanBases[r.SpanOf]
			if !ok {
				sb.ctx, sb.span = tracer.Start(bg, fmt.Sprintf("request-span%d", r.SpanOf))
				spanBases[r.SpanOf] = sb
			}
			base = sb.ctx
			g.span = sb.span
			g.SpanID = spanKey(sb.span.SpanContext())
		}
		ctx := context.WithValue(base, markerKey{}, r.Ctx)
		if len(r.Meta) > 0 {
			ctx = client.NewContext(ctx, client.Info{Metadata: client.NewMetadata(r.Meta)})
		}
		if r.DeadlineMs > 0 {
			ctx, g.cancel = context.WithTimeout(ctx, time.Duration(r.DeadlineMs)*time.Millisecond)
			g.DeadlineAt = time.Since(t0) + time.Duration(r.DeadlineMs)*time.Millisecond
		} else {
			ctx, g.cancel = context.WithCancel(ctx)
		}
		g.ctx = ctx
		h.Groups[r.Ctx] = g
		return g
	}
	snapshot := func() {
		mu.Lock()
		in := 0
		for _, e := range h.Exports {
			if !e.Returned {
				in++
				if e.ErrSeen == nil {
					e.ErrSeen = e.ctx.Err()
				}
			}
		}
		h.Snaps = append(h.Snaps, Snapshot{Step: step, At: time.Since(t0), InFlight: in})
		mu.Unlock()
	}
	waiting := func() []*Export {
		var ws []*Export
		for _, e := range h.Exports {
			if !e.Returned && len(e.gate) == 0 {
				ws = append(ws, e)
			}
		}
		return ws
	}
	startShutdown := func() {
		mu.Lock()
		if h.ShutdownStarted {
			mu.Unlock()
			return
		}
		h.ShutdownStarted = true
		h.ShutdownStep = step
		mu.Unlock()
		go func() {
			_ = comp.Shutdown(bg)
			mu.Lock()
			h.ShutdownReturned = true
			h.ShutdownRetStep = step
			mu.Unlock()
		}()
	}

	for _, st := range sc.Steps {
		mu.Lock()
		step++
		cur := step
		mu.Unlock()
		switch st.Kind {
		case StepConsume:
			for _, i := range st.Reqs {
				if i < 0 || i >= len(sc.Reqs) || h.Callers[i].Started || h.ShutdownStarted {
					continue
				}
				// The shard's input channel holds runtime.NumCPU() requests. A
				// caller that blocks on a full channel has not been accepted yet,
				// and the properties speak about accepted requests: never have
				// more outstanding calls than the channel can hold.
				mu.Lock()
				outstanding := 0
				for _, oc := range h.Callers {
					if oc.Started && !oc.Done {
						outstanding++
					}
				}
				mu.Unlock()
				if outstanding >= runtime.NumCPU()-1 && sc.Chan == 0 {
					continue
				}
				c := h.Callers[i]
				g := group(i)
				mu.Lock()
				c.Started = true
				c.StartStep = cur
				c.StartAt = time.Since(t0) + time.Duration(st.D)*time.Millisecond
				mu.Unlock()
				delay := time.Duration(st.D) * time.Millisecond
				go func(i int, ctx context.Context) {
					if delay > 0 {
						// the call is made at the very instant other timers
						// (the flush timer, deadlines) fire
						time.Sleep(delay)
					}
					err := consume(ctx, i)
					mu.Lock()
					c.Done = true
					c.Err = err
					c.DoneStep = step
					c.DoneAt = time.Since(t0)
					mu.Unlock()
				}(i, g.ctx)
			}
			if st.D > 0 {
				time.Sleep(time.Duration(st.D) * time.Millisecond)
			}
		case StepAdvance:
			time.Sleep(time.Duration(st.D) * time.Millisecond)
		case StepComplete:
			mu.Lock()
			ws := waiting()
			mu.Unlock()
			if st.Export >= 0 && st.Export < len(ws) {
				e := ws[st.Export]
				if st.Fail {
					e.gate <- exportFailure(e.Idx, st.FailKind)
				} else {
					e.gate <- nil
				}
			}
		case StepCancel:
			if g := h.Groups[st.Ctx]; g != nil && !g.Cancelled {
				mu.Lock()
				g.Cancelled = true
				g.CancelStep = cur
				g.CancelAt = time.Since(t0)
				mu.Unlock()
				g.cancel()
			}
		case StepShutdown:
			startShutdown()
		}
		synctest.Wait()
		snapshot()
	}

	// cleanup phase: Shutdown (if the scenario did not call it), then release
	// every waiting export until none is left.
	mu.Lock()
	step++
	h.CleanupStep = step
	mu.Unlock()
	startShutdown()
	synctest.Wait()
	snapshot()
	for round := 0; round < 200; round++ {
		mu.Lock()
		step++
		ws := waiting()
		mu.Unlock()
		for _, e := range ws {
			e.gate <- nil
		}
		synctest.Wait()
		snapshot()
		if len(ws) == 0 {
			break
		}
	}

	// final observation - caller contexts are still open, so a caller that is
	// blocked here is a genuine hang, not something the cleanup produced.
	mu.Lock()
	stuck := !h.ShutdownReturned
	for _, c := range h.Callers {
		if c.Started && !c.Done {
			stuck = true
		}
	}
	mu.Unlock()
	buf := make([]byte, 1<<18)
	n := runtime.Stack(buf, true)
	all := strings.Split(string(buf[:n]), "\n\n")
	me := ""
	if m := bubbleRe.FindStringSubmatch(all[0]); m != nil {
		me = m[0]
	}
	for _, gs := range all[1:] {
		if me != "" && !strings.Contains(strings.SplitN(gs, "\n", 2)[0], me) {
			continue // another (abandoned) bubble or the test runner
		}
		if strings.Contains(gs, "concurrentbatchprocessor.") {
			h.Leaked++
			if len(h.Stacks) < 6000 {
				h.Stacks += gs + "\n\n"
			}
		}
	}
	if h.Leaked > 0 {
		stuck = true
	}
	h.Stuck = stuck

	// end request spans and collect what the tracer provider recorded
	var gids []int
	for id := range h.Groups {
		gids = append(gids, id)
	}
	sort.Ints(gids)
	for _, id := range gids {
		g := h.Groups[id]
		if g.span != nil {
			g.span.End()
		}
	}
	for _, s := range recorder.Ended() {
		r := SpanRec{Name: s.Name(), SpanID: spanKey(s.SpanContext())}
		if s.Parent().IsValid() {
			r.Parent = spanKey(s.Parent())
		}
		for _, l := range s.Links() {
			r.Links = append(r.Links, spanKey(l.SpanContext))
		}
		h.Spans[r.SpanID] = r
	}
	for _, id := range gids {
		h.Groups[id].cancel()
	}
	if !stuck {
		synctest.Wait()
	}
	return h
}

func regItems(h *History, mu *sync.Mutex, req int, items []Item) {
	mu.Lock()
	for _, it := range items {
		h.Expected[it.ID] = it
		h.Owner[it.ID] = req
	}
	mu.Unlock()
}

// spanKey identifies a span the way the tracing model does: by trace id AND
// span id (a span id is only unique within its trace).
func spanKey(sc trace.SpanContext) string {
	return sc.TraceID().String() + "/" + sc.SpanID().String()
}

// perTraceIDs is an sdktrace.IDGenerator that numbers traces 1, 2, 3 ... and
// the spans of each trace 1, 2, 3 ...: every root span - so every request
// span of a scenario - has span id 1, in a trace of its own. Valid ids (a
// span id has to be unique within its trace only), as sequential and
// per-trace generators produce them (seeded change C18e).
type perTraceIDs struct {
	mu     sync.Mutex
	traces uint64
	next   map[trace.TraceID]uint64
}

func (g *perTraceIDs) NewIDs(context.Context) (trace.TraceID, trace.SpanID) {
	g.mu.Lock()
	defer g.mu.Unlock()
	g.traces++
	var t trace.TraceID
	binary.BigEndian.PutUint64(t[8:], g.traces)
	g.next[t] = 1
	var s trace.SpanID
	binary.BigEndian.PutUint64(s[:], 1)
	return t, s
}

func (g *perTraceIDs) NewSpanID(_ context.Context, t trace.TraceID) trace.SpanID {
	g.mu.Lock()
	defer g.mu.Unlock()
	g.next[t]++
	var s trace.SpanID
	binary.BigEndian.PutUint64(s[:], g.next[t])
	return s
}
