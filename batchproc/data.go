package batchproc

import (
	"fmt"
	"sort"
	"strings"

	"go.opentelemetry.io/collector/pdata/pcommon"
	"go.opentelemetry.io/collector/pdata/plog"
	"go.opentelemetry.io/collector/pdata/pmetric"
	"go.opentelemetry.io/collector/pdata/ptrace"
)

// Item is the identity and the fingerprints of one item (span, log record,
// data point): Content covers the item itself, Container the chain of
// containers it sits under (resource attributes, dropped count and schema URL;
// scope name, version, attributes and schema URL; metric descriptor).
type Item struct {
	ID        string
	Content   string
	Container string
}

func attrsFP(m pcommon.Map) string {
	var parts []string
	m.Range(func(k string, v pcommon.Value) bool {
		parts = append(parts, k+"="+v.AsString())
		return true
	})
	sort.Strings(parts)
	return "{" + strings.Join(parts, ",") + "}"
}

func resFP(r pcommon.Resource, url string) string {
	return fmt.Sprintf("R(%s,%d,%q)", attrsFP(r.Attributes()), r.DroppedAttributesCount(), url)
}

func scopeFP(s pcommon.InstrumentationScope, url string) string {
	return fmt.Sprintf("S(%q,%q,%s,%d,%q)", s.Name(), s.Version(), attrsFP(s.Attributes()), s.DroppedAttributesCount(), url)
}

func fillRes(r pcommon.Resource, req, ri int) {
	r.Attributes().PutStr("res", fmt.Sprintf("r%d.%d", req, ri))
	r.Attributes().PutInt("n", int64(ri))
	r.SetDroppedAttributesCount(uint32(ri + 1))
}

func fillScope(s pcommon.InstrumentationScope, req, ri, si int) {
	s.SetName(fmt.Sprintf("scope-%d.%d.%d", req, ri, si))
	s.SetVersion(fmt.Sprintf("v%d", si))
	s.Attributes().PutStr("sc", fmt.Sprintf("s%d", si))
	s.SetDroppedAttributesCount(uint32(si))
}

func resURL(rs ResShape, req, ri int) string {
	if rs.NoURL {
		return ""
	}
	return fmt.Sprintf("https://schema/res/%d.%d", req, ri)
}

func scopeURL(sc ScopeShape, req, ri, si int) string {
	if sc.NoURL {
		return ""
	}
	return fmt.Sprintf("https://schema/scope/%d.%d.%d", req, ri, si)
}

// BuildTraces builds the request's pdata.
func BuildTraces(req int, r Request) ptrace.Traces {
	td := ptrace.NewTraces()
	k := 0
	for ri, rs := range r.Shape {
		prs := td.ResourceSpans().AppendEmpty()
		fillRes(prs.Resource(), req, ri)
		prs.SetSchemaUrl(resURL(rs, req, ri))
		for si, sc := range rs.Scopes {
			pss := prs.ScopeSpans().AppendEmpty()
			fillScope(pss.Scope(), req, ri, si)
			pss.SetSchemaUrl(scopeURL(sc, req, ri, si))
			for i := 0; i < sc.Items; i++ {
				sp := pss.Spans().AppendEmpty()
				sp.SetName(fmt.Sprintf("r%d-%d", req, k))
				sp.SetKind(ptrace.SpanKind(k%5 + 1))
				sp.SetStartTimestamp(pcommon.Timestamp(1000 + k))
				sp.SetEndTimestamp(pcommon.Timestamp(2000 + k))
				sp.Attributes().PutInt("k", int64(k))
				sp.Attributes().PutStr("req", fmt.Sprint(req))
				if k%2 == 0 {
					ev := sp.Events().AppendEmpty()
					ev.SetName(fmt.Sprintf("ev%d", k))
					ev.Attributes().PutInt("e", int64(k))
				}
				if k%3 == 0 {
					sp.Links().AppendEmpty().TraceState().FromRaw(fmt.Sprintf("l%d", k))
				}
				sp.Status().SetMessage(fmt.Sprintf("st%d", k))
				k++
			}
		}
	}
	return td
}

func spanFP(sp ptrace.Span) string {
	var evs, lks []string
	for i := 0; i < sp.Events().Len(); i++ {
		e := sp.Events().At(i)
		evs = append(evs, e.Name()+attrsFP(e.Attributes()))
	}
	for i := 0; i < sp.Links().Len(); i++ {
		lks = append(lks, sp.Links().At(i).TraceState().AsRaw())
	}
	return fmt.Sprintf("SPAN(%q,%d,%d,%d,%s,%v,%v,%q,%d)", sp.Name(), sp.Kind(), sp.StartTimestamp(), sp.EndTimestamp(), attrsFP(sp.Attributes()), evs, lks, sp.Status().Message(), sp.DroppedAttributesCount())
}

// TraceItems lists the items of a traces value with their fingerprints.
func TraceItems(td ptrace.Traces) []Item {
	var out []Item
	for i := 0; i < td.ResourceSpans().Len(); i++ {
		rs := td.ResourceSpans().At(i)
		rf := resFP(rs.Resource(), rs.SchemaUrl())
		for j := 0; j < rs.ScopeSpans().Len(); j++ {
			ss := rs.ScopeSpans().At(j)
			sf := scopeFP(ss.Scope(), ss.SchemaUrl())
			for k := 0; k < ss.Spans().Len(); k++ {
				sp := ss.Spans().At(k)
				out = append(out, Item{ID: sp.Name(), Content: spanFP(sp), Container: rf + " " + sf})
			}
		}
	}
	return out
}

// BuildLogs builds the request's pdata.
func BuildLogs(req int, r Request) plog.Logs {
	ld := plog.NewLogs()
	k := 0
	for ri, rs := range r.Shape {
		prl := ld.ResourceLogs().AppendEmpty()
		fillRes(prl.Resource(), req, ri)
		prl.SetSchemaUrl(resURL(rs, req, ri))
		for si, sc := range rs.Scopes {
			psl := prl.ScopeLogs().AppendEmpty()
			fillScope(psl.Scope(), req, ri, si)
			psl.SetSchemaUrl(scopeURL(sc, req, ri, si))
			for i := 0; i < sc.Items; i++ {
				l := psl.LogRecords().AppendEmpty()
				l.Body().SetStr(fmt.Sprintf("r%d-%d", req, k))
				l.SetSeverityNumber(plog.SeverityNumber(k%20 + 1))
				l.SetSeverityText(fmt.Sprintf("sev%d", k))
				l.SetTimestamp(pcommon.Timestamp(1000 + k))
				l.Attributes().PutInt("k", int64(k))
				l.Attributes().PutStr("req", fmt.Sprint(req))
				k++
			}
		}
	}
	return ld
}

func logFP(l plog.LogRecord) string {
	return fmt.Sprintf("LOG(%q,%d,%q,%d,%s,%d)", l.Body().AsString(), l.SeverityNumber(), l.SeverityText(), l.Timestamp(), attrsFP(l.Attributes()), l.DroppedAttributesCount())
}

// LogItems lists the items of a logs value with their fingerprints.
func LogItems(ld plog.Logs) []Item {
	var out []Item
	for i := 0; i < ld.ResourceLogs().Len(); i++ {
		rl := ld.ResourceLogs().At(i)
		rf := resFP(rl.Resource(), rl.SchemaUrl())
		for j := 0; j < rl.ScopeLogs().Len(); j++ {
			sl := rl.ScopeLogs().At(j)
			sf := scopeFP(sl.Scope(), sl.SchemaUrl())
			for k := 0; k < sl.LogRecords().Len(); k++ {
				l := sl.LogRecords().At(k)
				out = append(out, Item{ID: l.Body().AsString(), Content: logFP(l), Container: rf + " " + sf})
			}
		}
	}
	return out
}

// BuildMetrics builds the request's pdata: metric mi of a scope has the type
// (mi mod 5): gauge, sum, histogram, exponential histogram, summary.
func BuildMetrics(req int, r Request) pmetric.Metrics {
	md := pmetric.NewMetrics()
	k := 0
	for ri, rs := range r.Shape {
		prm := md.ResourceMetrics().AppendEmpty()
		fillRes(prm.Resource(), req, ri)
		prm.SetSchemaUrl(resURL(rs, req, ri))
		for si, sc := range rs.Scopes {
			psm := prm.ScopeMetrics().AppendEmpty()
			fillScope(psm.Scope(), req, ri, si)
			psm.SetSchemaUrl(scopeURL(sc, req, ri, si))
			for mi, np := range sc.Metrics {
				m := psm.Metrics().AppendEmpty()
				m.SetName(fmt.Sprintf("metric-%d.%d.%d.%d", req, ri, si, mi))
				m.SetDescription(fmt.Sprintf("desc %d", mi))
				m.SetUnit(fmt.Sprintf("u%d", mi))
				if mi%2 == 0 {
					// metric-level metadata (OTLP Metric.metadata), part of what a
					// metric arrived with
					m.Metadata().PutStr("origin", fmt.Sprintf("o%d.%d", req, mi))
				}
				id := func(a pcommon.Map) {
					a.PutStr("id", fmt.Sprintf("r%d-%d", req, k))
					a.PutInt("k", int64(k))
					k++
				}
				switch (mi + ri + si) % 5 {
				case 0:
					g := m.SetEmptyGauge()
					for i := 0; i < np; i++ {
						dp := g.DataPoints().AppendEmpty()
						dp.SetIntValue(int64(k))
						dp.SetTimestamp(pcommon.Timestamp(1000 + k))
						id(dp.Attributes())
					}
				case 1:
					s := m.SetEmptySum()
					s.SetAggregationTemporality(pmetric.AggregationTemporalityCumulative)
					s.SetIsMonotonic(true)
					for i := 0; i < np; i++ {
						dp := s.DataPoints().AppendEmpty()
						dp.SetDoubleValue(float64(k) + 0.5)
						id(dp.Attributes())
					}
				case 2:
					h := m.SetEmptyHistogram()
					h.SetAggregationTemporality(pmetric.AggregationTemporalityDelta)
					for i := 0; i < np; i++ {
						dp := h.DataPoints().AppendEmpty()
						dp.SetCount(uint64(k))
						dp.SetSum(float64(k))
						dp.BucketCounts().FromRaw([]uint64{uint64(k), 1})
						dp.ExplicitBounds().FromRaw([]float64{1})
						id(dp.Attributes())
					}
				case 3:
					h := m.SetEmptyExponentialHistogram()
					h.SetAggregationTemporality(pmetric.AggregationTemporalityCumulative)
					for i := 0; i < np; i++ {
						dp := h.DataPoints().AppendEmpty()
						dp.SetCount(uint64(k))
						dp.SetScale(int32(k % 4))
						dp.Positive().BucketCounts().FromRaw([]uint64{1, uint64(k)})
						id(dp.Attributes())
					}
				default:
					s := m.SetEmptySummary()
					for i := 0; i < np; i++ {
						dp := s.DataPoints().AppendEmpty()
						dp.SetCount(uint64(k))
						dp.SetSum(float64(k))
						dp.QuantileValues().AppendEmpty().SetValue(float64(k))
						id(dp.Attributes())
					}
				}
			}
		}
	}
	return md
}

func metricFP(m pmetric.Metric) string {
	extra := ""
	switch m.Type() {
	case pmetric.MetricTypeSum:
		extra = fmt.Sprintf("%d,%v", m.Sum().AggregationTemporality(), m.Sum().IsMonotonic())
	case pmetric.MetricTypeHistogram:
		extra = fmt.Sprintf("%d", m.Histogram().AggregationTemporality())
	case pmetric.MetricTypeExponentialHistogram:
		extra = fmt.Sprintf("%d", m.ExponentialHistogram().AggregationTemporality())
	}
	meta := ""
	if v, ok := m.Metadata().Get("origin"); ok {
		meta = ",metadata origin=" + v.AsString()
	}
	if m.Metadata().Len() > 1 {
		meta += fmt.Sprintf(",+%d entries", m.Metadata().Len()-1)
	}
	return fmt.Sprintf("M(%q,%q,%q,%s,%s%s)", m.Name(), m.Description(), m.Unit(), m.Type(), extra, meta)
}

func idOf(a pcommon.Map) string {
	v, ok := a.Get("id")
	if !ok {
		return "<no id>"
	}
	return v.Str()
}

// MetricItems lists the data points of a metrics value with their fingerprints.
func MetricItems(md pmetric.Metrics) []Item {
	var out []Item
	for i := 0; i < md.ResourceMetrics().Len(); i++ {
		rm := md.ResourceMetrics().At(i)
		rf := resFP(rm.Resource(), rm.SchemaUrl())
		for j := 0; j < rm.ScopeMetrics().Len(); j++ {
			sm := rm.ScopeMetrics().At(j)
			sf := scopeFP(sm.Scope(), sm.SchemaUrl())
			for k := 0; k < sm.Metrics().Len(); k++ {
				m := sm.Metrics().At(k)
				cf := rf + " " + sf + " " + metricFP(m)
				switch m.Type() {
				case pmetric.MetricTypeGauge:
					for x := 0; x < m.Gauge().DataPoints().Len(); x++ {
						dp := m.Gauge().DataPoints().At(x)
						out = append(out, Item{ID: idOf(dp.Attributes()), Content: fmt.Sprintf("N(%d,%d,%s)", dp.IntValue(), dp.Timestamp(), attrsFP(dp.Attributes())), Container: cf})
					}
				case pmetric.MetricTypeSum:
					for x := 0; x < m.Sum().DataPoints().Len(); x++ {
						dp := m.Sum().DataPoints().At(x)
						out = append(out, Item{ID: idOf(dp.Attributes()), Content: fmt.Sprintf("N(%v,%d,%s)", dp.DoubleValue(), dp.Timestamp(), attrsFP(dp.Attributes())), Container: cf})
					}
				case pmetric.MetricTypeHistogram:
					for x := 0; x < m.Histogram().DataPoints().Len(); x++ {
						dp := m.Histogram().DataPoints().At(x)
						out = append(out, Item{ID: idOf(dp.Attributes()), Content: fmt.Sprintf("H(%d,%v,%v,%v,%s)", dp.Count(), dp.Sum(), dp.BucketCounts().AsRaw(), dp.ExplicitBounds().AsRaw(), attrsFP(dp.Attributes())), Container: cf})
					}
				case pmetric.MetricTypeExponentialHistogram:
					for x := 0; x < m.ExponentialHistogram().DataPoints().Len(); x++ {
						dp := m.ExponentialHistogram().DataPoints().At(x)
						out = append(out, Item{ID: idOf(dp.Attributes()), Content: fmt.Sprintf("EH(%d,%d,%v,%s)", dp.Count(), dp.Scale(), dp.Positive().BucketCounts().AsRaw(), attrsFP(dp.Attributes())), Container: cf})
					}
				case pmetric.MetricTypeSummary:
					for x := 0; x < m.Summary().DataPoints().Len(); x++ {
						dp := m.Summary().DataPoints().At(x)
						q := 0.0
						if dp.QuantileValues().Len() > 0 {
							q = dp.QuantileValues().At(0).Value()
						}
						out = append(out, Item{ID: idOf(dp.Attributes()), Content: fmt.Sprintf("SU(%d,%v,%v,%s)", dp.Count(), dp.Sum(), q, attrsFP(dp.Attributes())), Container: cf})
					}
				}
			}
		}
	}
	return out
}
