// Package batchproc is the harness for the concurrent batch processor
// properties (C05, C06, C09, C10, C11, C18). A scenario is a pure value; it is
// executed inside a testing/synctest bubble so that the processor's timers run
// on a virtual clock and the interleaving is owned at action granularity
// (DESIGN.md §6).
package batchproc

import (
	"fmt"
	"strings"
)

// Config mirrors the processor configuration.
type Config struct {
	Size      int      `json:"send_batch_size"`
	Max       int      `json:"send_batch_max_size"`
	TimeoutMs int      `json:"timeout_ms"`
	MaxConc   int      `json:"max_concurrency"`
	Early     bool     `json:"early_return"`
	Keys      []string `json:"metadata_keys,omitempty"`
	Limit     int      `json:"metadata_cardinality_limit,omitempty"`
}

func (c Config) String() string {
	s := fmt.Sprintf("size=%d max=%d timeout=%dms conc=%d early=%v", c.Size, c.Max, c.TimeoutMs, c.MaxConc, c.Early)
	if len(c.Keys) > 0 {
		s += fmt.Sprintf(" keys=%v limit=%d", c.Keys, c.Limit)
	}
	return s
}

// ScopeShape is one scope (or, for metrics, one scope with its metrics).
type ScopeShape struct {
	Items   int   `json:"items,omitempty"`   // spans / log records in the scope
	Metrics []int `json:"metrics,omitempty"` // metrics signal: data points per metric (metric type = index%6 shape, see data.go)
	NoURL   bool  `json:"no_url,omitempty"`  // empty schema URL on the scope container
}

// ResShape is one resource with its scopes.
type ResShape struct {
	Scopes []ScopeShape `json:"scopes"`
	NoURL  bool         `json:"no_url,omitempty"`
}

// Request is one Consume call.
type Request struct {
	Shape []ResShape `json:"shape"`
	// Ctx is the context group: requests with the same group share ONE
	// context object (and one request span); different groups have distinct
	// contexts.
	Ctx int `json:"ctx"`
	// SpanOf is the context group whose request span this group's context
	// carries (distinct contexts derived from one span-carrying parent, e.g.
	// per-request contexts below one connection span). -1 / own id = own span.
	SpanOf     int                 `json:"span_of"`
	DeadlineMs int                 `json:"deadline_ms,omitempty"` // >0: context.WithTimeout on the group's context
	Meta       map[string][]string `json:"meta,omitempty"`        // client metadata of the group's context
}

// Items counts the items (spans, log records, data points) of a request.
func (r Request) Items() int {
	n := 0
	for _, rs := range r.Shape {
		for _, sc := range rs.Scopes {
			n += sc.Items
			for _, m := range sc.Metrics {
				n += m
			}
		}
	}
	return n
}

// Step kinds.
const (
	StepConsume  = "consume"  // Reqs: requests issued concurrently, without intermediate quiescence; D>0: issued D virtual ms later, at the instant other timers fire
	StepAdvance  = "advance"  // D: virtual milliseconds
	StepComplete = "complete" // Export: index among the waiting exports; Fail: return an error
	StepCancel   = "cancel"   // Ctx: context group to cancel
	StepShutdown = "shutdown"
)

// Step is one action of the scenario; after every step the engine waits until
// every goroutine of the bubble is durably blocked.
type Step struct {
	Kind   string `json:"kind"`
	Reqs   []int  `json:"reqs,omitempty"`
	D      int    `json:"ms,omitempty"`
	Export int    `json:"export,omitempty"`
	Fail   bool   `json:"fail,omitempty"`
	// FailKind: what the failing export returns. 0: an ordinary error; 1: an
	// error wrapping context.DeadlineExceeded (a downstream timeout - NOT the
	// caller's context); 2: one wrapping context.Canceled; 3: a permanent error
	// (consumererror.NewPermanent).
	FailKind int `json:"fail_kind,omitempty"`
	Ctx      int `json:"ctx,omitempty"`
}

func (s Step) String() string {
	switch s.Kind {
	case StepConsume:
		if s.D > 0 {
			return fmt.Sprintf("consume%v@+%dms", s.Reqs, s.D)
		}
		return fmt.Sprintf("consume%v", s.Reqs)
	case StepAdvance:
		return fmt.Sprintf("advance(%dms)", s.D)
	case StepComplete:
		if s.Fail {
			if s.FailKind > 0 {
				return fmt.Sprintf("fail(%d,%s)", s.Export, failKindNames[s.FailKind%len(failKindNames)])
			}
			return fmt.Sprintf("fail(%d)", s.Export)
		}
		return fmt.Sprintf("ok(%d)", s.Export)
	case StepCancel:
		return fmt.Sprintf("cancel(ctx%d)", s.Ctx)
	default:
		return s.Kind
	}
}

var failKindNames = []string{"error", "wraps-deadline-exceeded", "wraps-canceled", "permanent"}

// Scenario is a complete case.
type Scenario struct {
	Signal string    `json:"signal"` // traces, logs, metrics
	Cfg    Config    `json:"config"`
	Reqs   []Request `json:"requests"`
	Steps  []Step    `json:"steps"`
	// Gated: exports block until a complete step (or the cleanup phase)
	// releases them. Otherwise they return at once with the scripted outcome.
	Gated bool `json:"gated"`
	// AutoFail lists the export indices that fail when Gated is false;
	// AutoFailKind is the FailKind of all of them.
	AutoFail     []int `json:"auto_fail,omitempty"`
	AutoFailKind int   `json:"auto_fail_kind,omitempty"`
	// Chan > 0: the scenario may have more outstanding Consume calls than the
	// shard's input channel holds, and was generated for a channel of this
	// capacity (the processor sizes it with runtime.NumCPU(); the check runs
	// such scenarios in a process pinned to Chan CPUs, see engine.go). 0: the
	// engine never lets NumCPU-1 calls be outstanding.
	Chan int `json:"chan,omitempty"`
	// HonourCancel: a gated export returns ctx.Err() as soon as its context
	// ends (a downstream consumer that honours cancellation).
	HonourCancel bool `json:"honour_cancel,omitempty"`
	// Spans: give every context group a started span (needed for C18's link
	// clauses).
	Spans bool `json:"spans,omitempty"`
	// Retain: the next consumer keeps every batch it accepted and modifies it
	// on its own goroutine after returning (it owns the batch)
	Retain bool `json:"retain_and_mutate,omitempty"`
	// SmallIDs: the harness's TracerProvider numbers the spans of each trace
	// 1, 2, 3 ..., so the request spans of different traces share a span id
	SmallIDs bool `json:"small_span_ids,omitempty"`
}

// Summary renders the scenario on one line (for samples and messages).
func (s *Scenario) Summary() string {
	var reqs []string
	for i, r := range s.Reqs {
		x := fmt.Sprintf("r%d:%d items/ctx%d", i, r.Items(), r.Ctx)
		if r.SpanOf != r.Ctx && s.Spans {
			x += fmt.Sprintf("/span of ctx%d", r.SpanOf)
		}
		if r.DeadlineMs > 0 {
			x += fmt.Sprintf("/deadline %dms", r.DeadlineMs)
		}
		if len(r.Meta) > 0 {
			x += fmt.Sprintf("/%v", r.Meta)
		}
		reqs = append(reqs, x)
	}
	var steps []string
	for _, st := range s.Steps {
		steps = append(steps, st.String())
	}
	mode := "auto"
	if s.Gated {
		mode = "gated"
		if s.HonourCancel {
			mode += "+honour-cancel"
		}
	}
	if s.Chan > 0 {
		mode += fmt.Sprintf("+channel of %d", s.Chan)
	}
	if len(s.AutoFail) > 0 && s.AutoFailKind > 0 {
		mode += "+failures " + failKindNames[s.AutoFailKind%len(failKindNames)]
	}
	return fmt.Sprintf("%s {%s} %s reqs[%s] steps[%s]", s.Signal, s.Cfg, mode, strings.Join(reqs, " "), strings.Join(steps, " "))
}
