package batchproc

import (
	"encoding/json"
	"fmt"
	"os"
	"os/exec"
	"runtime"
	"strconv"
	"strings"
	"testing"
	"time"

	"verif/kit"
)

func cloneScenario(sc *Scenario) *Scenario {
	b, _ := json.Marshal(sc)
	var out Scenario
	_ = json.Unmarshal(b, &out)
	return &out
}

// dropRequest removes request i and renumbers the references in the steps.
func dropRequest(sc *Scenario, i int) {
	sc.Reqs = append(sc.Reqs[:i], sc.Reqs[i+1:]...)
	var steps []Step
	for _, st := range sc.Steps {
		if st.Kind == StepConsume {
			var rs []int
			for _, r := range st.Reqs {
				if r == i {
					continue
				}
				if r > i {
					r--
				}
				rs = append(rs, r)
			}
			if len(rs) == 0 {
				continue
			}
			st.Reqs = rs
		}
		steps = append(steps, st)
	}
	sc.Steps = steps
}

// minimizeScenario greedily simplifies a failing scenario. fails must tolerate
// scheduler nondeterminism (it runs the scenario several times).
func minimizeScenario(sc *Scenario, fails func(*Scenario) bool, budget int) *Scenario {
	cur := cloneScenario(sc)
	tries := 0
	wall := 10 * time.Minute
	if v, err := strconv.Atoi(os.Getenv("VERIF_MINIMIZE_SECONDS")); err == nil && v > 0 {
		wall = time.Duration(v) * time.Second
	}
	deadline := time.Now().Add(wall)
	try := func(c *Scenario) bool {
		if tries >= budget || time.Now().After(deadline) {
			tries = budget
			return false
		}
		tries++
		return fails(c)
	}
	for changed := true; changed && tries < budget; {
		changed = false
		for i := len(cur.Steps) - 1; i >= 0; i-- {
			c := cloneScenario(cur)
			c.Steps = append(c.Steps[:i], c.Steps[i+1:]...)
			if try(c) {
				cur, changed = c, true
			}
		}
		for i := len(cur.Reqs) - 1; i >= 0 && len(cur.Reqs) > 1; i-- {
			c := cloneScenario(cur)
			dropRequest(c, i)
			if try(c) {
				cur, changed = c, true
			}
		}
		// split consume groups
		for i := range cur.Steps {
			if cur.Steps[i].Kind == StepConsume && len(cur.Steps[i].Reqs) > 1 {
				c := cloneScenario(cur)
				var steps []Step
				steps = append(steps, c.Steps[:i]...)
				for _, r := range c.Steps[i].Reqs {
					steps = append(steps, Step{Kind: StepConsume, Reqs: []int{r}})
				}
				steps = append(steps, c.Steps[i+1:]...)
				c.Steps = steps
				if try(c) {
					cur, changed = c, true
					break
				}
			}
		}
		// simplify shapes
		for ri := range cur.Reqs {
			for progress := true; progress && tries < budget; {
				progress = false
				r := cur.Reqs[ri]
				for si := len(r.Shape) - 1; si >= 0 && !progress; si-- {
					if len(r.Shape) > 1 {
						c := cloneScenario(cur)
						c.Reqs[ri].Shape = append(c.Reqs[ri].Shape[:si], c.Reqs[ri].Shape[si+1:]...)
						if try(c) {
							cur, changed, progress = c, true, true
							break
						}
					}
					for ci := len(r.Shape[si].Scopes) - 1; ci >= 0 && !progress; ci-- {
						c := cloneScenario(cur)
						sh := &c.Reqs[ri].Shape[si]
						sh.Scopes = append(sh.Scopes[:ci], sh.Scopes[ci+1:]...)
						if try(c) {
							cur, changed, progress = c, true, true
							break
						}
						c = cloneScenario(cur)
						s := &c.Reqs[ri].Shape[si].Scopes[ci]
						if s.Items > 0 {
							s.Items--
						} else if len(s.Metrics) > 0 {
							if s.Metrics[len(s.Metrics)-1] > 0 {
								s.Metrics[len(s.Metrics)-1]--
							} else {
								s.Metrics = s.Metrics[:len(s.Metrics)-1]
							}
						} else {
							continue
						}
						if try(c) {
							cur, changed, progress = c, true, true
							break
						}
					}
				}
			}
		}
		// drop scenario features
		for _, f := range []func(*Scenario) bool{
			func(c *Scenario) bool { x := c.Cfg.Early; c.Cfg.Early = false; return x },
			func(c *Scenario) bool { x := c.HonourCancel; c.HonourCancel = false; return x },
			func(c *Scenario) bool { x := len(c.AutoFail) > 0; c.AutoFail = nil; return x },
			func(c *Scenario) bool { x := c.Cfg.MaxConc != 0; c.Cfg.MaxConc = 0; return x },
			func(c *Scenario) bool {
				x := false
				for i := range c.Reqs {
					if c.Reqs[i].DeadlineMs != 0 {
						x = true
						c.Reqs[i].DeadlineMs = 0
					}
				}
				return x
			},
			func(c *Scenario) bool { x := c.Signal != "traces"; c.Signal = "traces"; toItems(c); return x },
		} {
			c := cloneScenario(cur)
			if f(c) && try(c) {
				cur, changed = c, true
			}
		}
	}
	return cur
}

// toItems converts metric shapes into span/log item counts.
func toItems(c *Scenario) {
	for ri := range c.Reqs {
		for si := range c.Reqs[ri].Shape {
			for ci := range c.Reqs[ri].Shape[si].Scopes {
				s := &c.Reqs[ri].Shape[si].Scopes[ci]
				for _, m := range s.Metrics {
					s.Items += m
				}
				s.Metrics = nil
			}
		}
	}
}

// TestMinimize shrinks the failing scenario in the file VERIF_REPLAY and
// rewrites the file.
func TestMinimize(t *testing.T) {
	p := os.Getenv("VERIF_REPLAY")
	if p == "" {
		t.Skip("VERIF_REPLAY not set")
	}
	b, err := os.ReadFile(p)
	if err != nil {
		t.Fatal(err)
	}
	var rp kit.Replay
	if err := json.Unmarshal(b, &rp); err != nil {
		t.Fatal(err)
	}
	sp, ok := specs[rp.Property]
	if !ok {
		t.Skipf("no scenario verdict for %s", rp.Property)
	}
	var sc Scenario
	if err := json.Unmarshal(rp.Case, &sc); err != nil {
		t.Skipf("not a scenario: %v", err)
	}
	if sc.Chan > 0 && sc.Chan != runtime.NumCPU() {
		if os.Getenv("VERIF_PINNED") != "" {
			fmt.Printf("MINIMIZE: child process sees %d CPUs, the case needs %d; left as is\n", runtime.NumCPU(), sc.Chan)
			return
		}
		// minimise in a child process pinned to the number of CPUs the case was generated for
		cmd := exec.Command("taskset", append([]string{"-c", fmt.Sprintf("0-%d", sc.Chan-1), os.Args[0]}, os.Args[1:]...)...)
		cmd.Env = append(os.Environ(), "VERIF_PINNED=1")
		out, _ := cmd.CombinedOutput()
		for _, l := range strings.Split(string(out), "\n") {
			if strings.HasPrefix(l, "MINIMIZE:") {
				fmt.Println(l)
			}
		}
		return
	}
	lastMsg := ""
	fails := func(c *Scenario) bool {
		for round := 0; round < 3; round++ {
			if m := sp.verdict(Run(t, c)); m != "" {
				lastMsg = m
				return true
			}
		}
		return false
	}
	if !fails(&sc) {
		fmt.Printf("MINIMIZE: scenario does not fail in 3 runs (schedule dependent); left as is\n")
		return
	}
	min := minimizeScenario(&sc, fails, 4000)
	if !fails(min) {
		return
	}
	kit.SaveReplay(p, rp.Property, lastMsg+"\nscenario: "+min.Summary(), min)
	fmt.Printf("MINIMIZE: %d requests, %d steps\n", len(min.Reqs), len(min.Steps))
}
