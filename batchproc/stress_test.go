package batchproc

import (
	"context"
	"fmt"
	"runtime"
	"strings"
	"sync"
	"sync/atomic"
	"testing"
	"time"

	"go.opentelemetry.io/collector/client"
	"go.opentelemetry.io/collector/component/componenttest"
	"go.opentelemetry.io/collector/consumer"
	"go.opentelemetry.io/collector/consumer/consumererror"
	"go.opentelemetry.io/collector/pdata/ptrace"
	"go.opentelemetry.io/collector/processor/processortest"
	"pgregory.net/rapid"

	cbp "github.com/open-telemetry/otel-arrow/collector/processor/concurrentbatchprocessor"

	"verif/kit"
)

// The stress tests run on the real scheduler (no bubble): statement-level
// interleavings inside the processor are reached only statistically here
// (DESIGN.md §6, §9). They are meant to be built with -race.

// StressCase are the parameters of one stress run.
type StressCase struct {
	Kind       string `json:"kind"` // "admission" or "concurrency"
	Goroutines int    `json:"goroutines"`
	Rounds     int    `json:"rounds"`
	Limit      int    `json:"limit"`
	MaxConc    int    `json:"max_concurrency"`
	Size       int    `json:"send_batch_size"`
	Combos     int    `json:"combinations"`
	CancelPct  int    `json:"cancel_pct"`
}

type stressSink struct {
	mu       sync.Mutex
	inflight map[string]int
	maxIn    map[string]int
	exported map[string]int
	mixed    string
	badMeta  string
	delay    bool
}

func (s *stressSink) Capabilities() consumer.Capabilities { return consumer.Capabilities{} }

func (s *stressSink) ConsumeTraces(ctx context.Context, td ptrace.Traces) error {
	tenant := ""
	first := true
	var names []string
	for i := 0; i < td.ResourceSpans().Len(); i++ {
		rs := td.ResourceSpans().At(i)
		for j := 0; j < rs.ScopeSpans().Len(); j++ {
			ss := rs.ScopeSpans().At(j)
			for k := 0; k < ss.Spans().Len(); k++ {
				sp := ss.Spans().At(k)
				names = append(names, sp.Name())
				v, _ := sp.Attributes().Get("tenant")
				if first {
					tenant, first = v.Str(), false
				} else if tenant != v.Str() {
					s.mu.Lock()
					s.mixed = fmt.Sprintf("one export carries items of tenants %q and %q", tenant, v.Str())
					s.mu.Unlock()
				}
			}
		}
	}
	got := client.FromContext(ctx).Metadata.Get("tenant")
	s.mu.Lock()
	if !first && tenant != "-" && (len(got) != 1 || got[0] != tenant) {
		s.badMeta = fmt.Sprintf("export for tenant %q sees client metadata tenant=%q", tenant, got)
	}
	s.inflight[tenant]++
	if s.inflight[tenant] > s.maxIn[tenant] {
		s.maxIn[tenant] = s.inflight[tenant]
	}
	for _, n := range names {
		s.exported[n]++
	}
	s.mu.Unlock()
	if s.delay {
		runtime.Gosched()
		time.Sleep(time.Duration(len(names)%3) * 50 * time.Microsecond)
	}
	s.mu.Lock()
	s.inflight[tenant]--
	s.mu.Unlock()
	return nil
}

func oneSpan(name, tenant string) ptrace.Traces {
	td := ptrace.NewTraces()
	sp := td.ResourceSpans().AppendEmpty().ScopeSpans().AppendEmpty().Spans().AppendEmpty()
	sp.SetName(name)
	sp.Attributes().PutStr("tenant", tenant)
	return td
}

const inconclusive = "\x00inconclusive"

// runStress executes one stress case and returns "" or the violation (or the
// marker `inconclusive` when a wall-clock patience limit was hit).
func runStress(sc *StressCase) string {
	for round := 0; round < sc.Rounds; round++ {
		f := cbp.NewFactory()
		cfg := f.CreateDefaultConfig().(*cbp.Config)
		cfg.SendBatchSize = uint32(sc.Size)
		cfg.Timeout = 2 * time.Millisecond
		cfg.MaxConcurrency = uint32(sc.MaxConc)
		if sc.Kind == "admission" {
			cfg.MetadataKeys = []string{"tenant"}
			cfg.MetadataCardinalityLimit = uint32(sc.Limit)
		}
		sink := &stressSink{inflight: map[string]int{}, maxIn: map[string]int{}, exported: map[string]int{}, delay: sc.Kind == "concurrency"}
		p, err := f.CreateTraces(context.Background(), processortest.NewNopSettings(f.Type()), cfg, sink)
		if err != nil {
			return "harness: " + err.Error()
		}
		if err := p.Start(context.Background(), componenttest.NewNopHost()); err != nil {
			return "harness: " + err.Error()
		}
		start := make(chan struct{})
		var wg sync.WaitGroup
		errs := make([]error, sc.Goroutines)
		cancelled := make([]bool, sc.Goroutines)
		var refused atomic.Int64
		for g := 0; g < sc.Goroutines; g++ {
			wg.Add(1)
			go func(g int) {
				defer wg.Done()
				tenant := "-"
				ctx := context.Background()
				if sc.Kind == "admission" {
					tenant = fmt.Sprintf("t%d", g%sc.Combos)
					ctx = client.NewContext(ctx, client.Info{Metadata: client.NewMetadata(map[string][]string{"tenant": {tenant}})})
				}
				var cancel context.CancelFunc
				if sc.CancelPct > 0 && (g*37+round)%100 < sc.CancelPct {
					ctx, cancel = context.WithCancel(ctx)
					cancelled[g] = true
				}
				<-start
				if cancel != nil {
					go func() { runtime.Gosched(); cancel() }()
				}
				errs[g] = p.ConsumeTraces(ctx, oneSpan(fmt.Sprintf("r%d-g%d", round, g), tenant))
				if errs[g] != nil && consumererror.IsPermanent(errs[g]) {
					refused.Add(1)
				}
			}(g)
		}
		close(start)
		wg.Wait()
		done := make(chan struct{})
		go func() { _ = p.Shutdown(context.Background()); close(done) }()
		select {
		case <-done:
		case <-time.After(120 * time.Second):
			// A wall-clock limit is never a correctness signal: the round is
			// inconclusive (deadlocks are decided on virtual time by TestC11).
			return inconclusive
		}
		sink.mu.Lock()
		mixed, badMeta := sink.mixed, sink.badMeta
		tenants := map[string]bool{}
		for name := range sink.exported {
			_ = name
		}
		sink.mu.Unlock()
		if mixed != "" {
			return fmt.Sprintf("round %d: %s", round, mixed)
		}
		if badMeta != "" {
			return fmt.Sprintf("round %d: %s", round, badMeta)
		}
		for g := 0; g < sc.Goroutines; g++ {
			name := fmt.Sprintf("r%d-g%d", round, g)
			n := sink.exported[name]
			tenant := fmt.Sprintf("t%d", g%max(sc.Combos, 1))
			switch {
			case n > 1:
				return fmt.Sprintf("round %d: item %s exported %d times", round, name, n)
			case errs[g] != nil && consumererror.IsPermanent(errs[g]) && n != 0:
				return fmt.Sprintf("round %d: request %s was refused but its item was exported", round, name)
			case errs[g] == nil && n != 1:
				return fmt.Sprintf("round %d: request %s returned nil but its item was exported %d times", round, name, n)
			case errs[g] != nil && !consumererror.IsPermanent(errs[g]) && !cancelled[g]:
				return fmt.Sprintf("round %d: request %s failed: %v", round, name, errs[g])
			}
			if n == 1 && sc.Kind == "admission" {
				tenants[tenant] = true
			}
		}
		if sc.Kind == "admission" && sc.Limit > 0 && len(tenants) > sc.Limit {
			return fmt.Sprintf("round %d: items of %d distinct combinations were exported, metadata_cardinality_limit is %d", round, len(tenants), sc.Limit)
		}
		if sc.Kind == "admission" && sc.Limit > 0 && sc.Combos > sc.Limit && refused.Load() == 0 {
			return fmt.Sprintf("round %d: %d combinations raced for %d slots and nobody was refused", round, sc.Combos, sc.Limit)
		}
		if sc.MaxConc > 0 {
			for t, m := range sink.maxIn {
				if m > sc.MaxConc {
					return fmt.Sprintf("round %d: %d export calls in flight for combination %q, max_concurrency is %d", round, m, t, sc.MaxConc)
				}
			}
		}
		// goroutine leak: after Shutdown returned, a goroutine that is still
		// PARKED inside processor code (same goroutine, blocked state, in three
		// scans 50 ms apart) was left behind; runnable goroutines are merely
		// not scheduled yet and are waited for. Running out of patience is
		// inconclusive, not a violation.
		patience := time.Now().Add(30 * time.Second)
		streak := map[string]int{}
		for {
			buf := make([]byte, 1<<18)
			n := runtime.Stack(buf, true)
			left := 0
			seen := map[string]bool{}
			for _, gs := range strings.Split(string(buf[:n]), "\n\n") {
				if !strings.Contains(gs, "concurrentbatchprocessor.") || strings.Contains(gs, "runStress") {
					continue
				}
				left++
				head := strings.SplitN(gs, "\n", 2)[0]
				id := strings.SplitN(head, " [", 2)[0]
				blocked := !strings.Contains(head, "[running") && !strings.Contains(head, "[runnable") && !strings.Contains(head, "[syscall")
				if blocked {
					seen[id] = true
					streak[id]++
					if streak[id] >= 3 {
						return fmt.Sprintf("round %d: a processor goroutine is still parked after Shutdown returned (left behind):\n%s", round, kit.Truncate(gs, 1500))
					}
				}
			}
			for id := range streak {
				if !seen[id] {
					delete(streak, id)
				}
			}
			if left == 0 {
				break
			}
			if time.Now().After(patience) {
				return inconclusive
			}
			time.Sleep(50 * time.Millisecond)
		}
	}
	return ""
}

func stressProp(id, kind string) func(t *testing.T) {
	return func(t *testing.T) {
		rec := kit.Get(id)
		rapid.Check(t, func(rt *rapid.T) {
			sc := &StressCase{Kind: kind}
			sc.Goroutines = rapid.IntRange(2, 24).Draw(rt, "goroutines")
			sc.Rounds = rapid.IntRange(5, 40).Draw(rt, "rounds")
			sc.Size = rapid.SampledFrom([]int{0, 1, 2, 8}).Draw(rt, "size")
			if kind == "admission" {
				sc.Combos = rapid.IntRange(1, sc.Goroutines).Draw(rt, "combos")
				sc.Limit = rapid.IntRange(0, 4).Draw(rt, "limit")
				sc.MaxConc = rapid.SampledFrom([]int{0, 0, 2}).Draw(rt, "conc")
			} else {
				sc.MaxConc = rapid.SampledFrom([]int{0, 1, 2, 3}).Draw(rt, "conc")
				sc.CancelPct = rapid.SampledFrom([]int{0, 10, 40}).Draw(rt, "cancelpct")
			}
			kit.SaveCurrent(id, sc)
			msg := runStress(sc)
			if msg == inconclusive {
				rec.Label("stress_case_inconclusive_wall_clock", 1)
				msg = ""
			}
			rec.Label("stress_rounds", sc.Rounds)
			rec.Case(true, fmt.Sprintf("stress:%s g%d l%d c%d s%d k%d x%d", kind, sc.Goroutines, sc.Limit, sc.MaxConc, sc.Size, sc.Combos, sc.CancelPct),
				[]string{"stress_" + kind}, func() any { return map[string]any{"stress": sc} })
			if msg != "" {
				rec.Fail(rt, sc, "%s", msg)
			}
		})
	}
}

func TestStressC10(t *testing.T) { stressProp("C10", "admission")(t) }
func TestStressC11(t *testing.T) { stressProp("C11", "concurrency")(t) }
