package obfus

import (
	"encoding/json"
	"fmt"
	"os"
	"sort"
	"strings"
	"testing"

	"go.opentelemetry.io/collector/pdata/pcommon"
	"go.opentelemetry.io/collector/pdata/plog"
	"go.opentelemetry.io/collector/pdata/pmetric"
	"go.opentelemetry.io/collector/pdata/ptrace"
	"pgregory.net/rapid"

	"verif/kit"
)

var strPool = []string{"", "a", "b", "ab", "abc", "abcd", "hello", "é", "日本", "日本語", "user@example.com", "1", "0", "aa", "\x00", "x\x00", "a b", "secret-token-0123456789", "ÿ", "€uro"}
var keyPool = []string{"k", "user", "email", "a", "key2", "é", "token", "", "K", "nested", "list"}

type g struct {
	t     *rapid.T
	own   []string
	list  []string
	rec   *kit.Recorder
	chain int // deep chains built
	long  int // long strings built (at most two per case: they are expensive)
}

// Known finding list-mode-key-collision (known_findings.txt): in
// encrypt_attributes mode the substitute of a listed key can equal an unlisted
// key of the same byte length in the same map, which then overwrites it. The
// generator excludes the precondition by construction: an unlisted key never
// has the byte length of a listed key (it is padded), counted as excluded.
func (x *g) avoidKnown(k string) string {
	if len(x.list) == 0 {
		return k
	}
	for _, l := range x.list {
		if l == k {
			return k
		}
	}
	padded := false
	for again := true; again; {
		again = false
		for _, l := range x.list {
			if len(l) == len(k) {
				k += "~"
				padded, again = true, true
			}
		}
	}
	if padded && x.rec != nil {
		x.rec.Excluded("list-mode-key-collision")
	}
	return k
}

var longLens = []int{131072, 65536, 65535, 65537, 196608, 131071, 256, 255, 257, 131073, 1 << 18}

func (x *g) str() string {
	if x.long < 2 && x.pct("longstr", 1) && x.pct("longstr2", 12) {
		// lengths around the powers of two a length field or a block size
		// would have (seeded change C17g: values processed in 64 KiB blocks);
		// two such strings differ in their last byte only
		x.long++
		n := rapid.SampledFrom(longLens).Draw(x.t, "longlen")
		b := []byte(strings.Repeat("x", n))
		b[n-1] = byte('a' + rapid.IntRange(0, 3).Draw(x.t, "longlast"))
		return string(b)
	}
	switch rapid.IntRange(0, 5).Draw(x.t, "strk") {
	case 0, 1, 2:
		return rapid.SampledFrom(strPool).Draw(x.t, "pool")
	case 3:
		if len(x.own) > 0 {
			return rapid.SampledFrom(x.own).Draw(x.t, "own")
		}
		fallthrough
	case 4:
		return rapid.StringN(0, 12, 40).Draw(x.t, "rs")
	default:
		// one byte strings over the whole byte range
		return string([]byte{rapid.Byte().Draw(x.t, "onebyte")})
	}
}

func (x *g) key() string {
	if len(x.list) > 0 && rapid.IntRange(0, 2).Draw(x.t, "listed") == 0 {
		return rapid.SampledFrom(x.list).Draw(x.t, "lk")
	}
	if rapid.IntRange(0, 5).Draw(x.t, "keyk") == 0 {
		return x.avoidKnown(x.str())
	}
	return x.avoidKnown(rapid.SampledFrom(keyPool).Draw(x.t, "key"))
}

// pct is an unbiased percentage draw (rapid's integer generators favour small
// values).
func (x *g) pct(label string, p int) bool {
	n := 0
	for i := 0; i < 7; i++ {
		n <<= 1
		if rapid.Bool().Draw(x.t, label) {
			n |= 1
		}
	}
	return n*100/128 < p
}

var chainDepths = []int{101, 100, 33, 17, 64, 128, 150, 255, 300, 9}

// deepChain nests N containers (lists and maps, mixed) under one value, with
// a string at the bottom and now and then a sibling string on the way down:
// "nested lists and maps" has no depth bound in the property.
func (x *g) deepChain(v pcommon.Value) {
	n := rapid.SampledFrom(chainDepths).Draw(x.t, "chaindepth")
	x.chain++
	for i := 0; i < n; i++ {
		if rapid.Bool().Draw(x.t, "chainmap") {
			m := v.SetEmptyMap()
			if rapid.IntRange(0, 7).Draw(x.t, "chainsib") == 0 {
				m.PutStr(x.key(), x.str())
			}
			v = m.PutEmpty(x.key())
		} else {
			sl := v.SetEmptySlice()
			if rapid.IntRange(0, 7).Draw(x.t, "chainsib") == 0 {
				sl.AppendEmpty().SetStr(x.str())
			}
			v = sl.AppendEmpty()
		}
	}
	if rapid.Bool().Draw(x.t, "chainleafbytes") {
		v.SetEmptyBytes().FromRaw([]byte(x.str()))
	} else {
		v.SetStr(x.str())
	}
}

func (x *g) val(v pcommon.Value, depth int) {
	if depth == 0 && x.pct("deepchain", 2) {
		x.deepChain(v)
		return
	}
	max := 7
	if depth >= 3 {
		max = 5
	}
	switch rapid.IntRange(0, max).Draw(x.t, "vt") {
	case 0:
		v.SetStr(x.str())
	case 1:
		v.SetEmptyBytes().FromRaw(rapid.SliceOfN(rapid.Byte(), 0, 6).Draw(x.t, "bytes"))
	case 2:
		v.SetInt(rapid.Int64().Draw(x.t, "int"))
	case 3:
		v.SetDouble(rapid.Float64().Draw(x.t, "dbl"))
	case 4:
		v.SetBool(rapid.Bool().Draw(x.t, "bool"))
	case 5:
		// unset
	case 6:
		sl := v.SetEmptySlice()
		n := rapid.IntRange(0, 6).Draw(x.t, "ln")
		for i := 0; i < n; i++ {
			x.val(sl.AppendEmpty(), depth+1)
		}
	case 7:
		x.attrs(v.SetEmptyMap(), depth+1)
	}
}

func (x *g) attrs(m pcommon.Map, depth int) {
	n := rapid.IntRange(0, 6).Draw(x.t, "na")
	for i := 0; i < n; i++ {
		x.val(m.PutEmpty(x.key()), depth)
	}
}

func (x *g) traces() ptrace.Traces {
	td := ptrace.NewTraces()
	nr := rapid.IntRange(0, 2).Draw(x.t, "nr")
	for i := 0; i < nr; i++ {
		rs := td.ResourceSpans().AppendEmpty()
		rs.SetSchemaUrl(rapid.SampledFrom([]string{"", "u"}).Draw(x.t, "url"))
		x.attrs(rs.Resource().Attributes(), 0)
		ns := rapid.IntRange(0, 2).Draw(x.t, "ns")
		for j := 0; j < ns; j++ {
			ss := rs.ScopeSpans().AppendEmpty()
			ss.Scope().SetName(x.str())
			ss.Scope().SetVersion(x.str())
			x.attrs(ss.Scope().Attributes(), 0)
			np := rapid.IntRange(0, 3).Draw(x.t, "np")
			for k := 0; k < np; k++ {
				sp := ss.Spans().AppendEmpty()
				sp.SetName(x.str())
				sp.SetKind(ptrace.SpanKind(k % 5))
				sp.SetStartTimestamp(pcommon.Timestamp(100 + k))
				sp.Status().SetMessage(x.str())
				sp.Status().SetCode(ptrace.StatusCode(k % 3))
				x.attrs(sp.Attributes(), 0)
				ne := rapid.IntRange(0, 2).Draw(x.t, "ne")
				for e := 0; e < ne; e++ {
					ev := sp.Events().AppendEmpty()
					ev.SetName(x.str())
					ev.SetTimestamp(pcommon.Timestamp(e))
					x.attrs(ev.Attributes(), 0)
				}
				nl := rapid.IntRange(0, 2).Draw(x.t, "nl")
				for e := 0; e < nl; e++ {
					lk := sp.Links().AppendEmpty()
					lk.TraceState().FromRaw(fmt.Sprint("l", e))
					x.attrs(lk.Attributes(), 0)
				}
			}
		}
	}
	return td
}

func (x *g) logs() plog.Logs {
	ld := plog.NewLogs()
	nr := rapid.IntRange(0, 2).Draw(x.t, "nr")
	for i := 0; i < nr; i++ {
		rl := ld.ResourceLogs().AppendEmpty()
		x.attrs(rl.Resource().Attributes(), 0)
		ns := rapid.IntRange(0, 2).Draw(x.t, "ns")
		for j := 0; j < ns; j++ {
			sl := rl.ScopeLogs().AppendEmpty()
			sl.Scope().SetName(x.str())
			x.attrs(sl.Scope().Attributes(), 0)
			nl := rapid.IntRange(0, 3).Draw(x.t, "nl")
			for k := 0; k < nl; k++ {
				l := sl.LogRecords().AppendEmpty()
				l.SetTimestamp(pcommon.Timestamp(k))
				l.SetSeverityText(x.str())
				x.val(l.Body(), 1)
				x.attrs(l.Attributes(), 0)
			}
		}
	}
	return ld
}

func (x *g) metrics() pmetric.Metrics {
	md := pmetric.NewMetrics()
	nr := rapid.IntRange(0, 2).Draw(x.t, "nr")
	for i := 0; i < nr; i++ {
		rm := md.ResourceMetrics().AppendEmpty()
		x.attrs(rm.Resource().Attributes(), 0)
		ns := rapid.IntRange(0, 2).Draw(x.t, "ns")
		for j := 0; j < ns; j++ {
			sm := rm.ScopeMetrics().AppendEmpty()
			sm.Scope().SetName(x.str())
			x.attrs(sm.Scope().Attributes(), 0)
			nm := rapid.IntRange(0, 3).Draw(x.t, "nm")
			for k := 0; k < nm; k++ {
				m := sm.Metrics().AppendEmpty()
				m.SetName(x.str())
				m.SetUnit(x.str())
				np := rapid.IntRange(0, 2).Draw(x.t, "npt")
				switch rapid.IntRange(0, 5).Draw(x.t, "mt") {
				case 0:
					for p := 0; p < np; p++ {
						dp := m.SetEmptyGauge().DataPoints().AppendEmpty()
						dp.SetIntValue(int64(p))
						x.attrs(dp.Attributes(), 0)
					}
					if np == 0 {
						m.SetEmptyGauge()
					}
				case 1:
					s := m.SetEmptySum()
					s.SetIsMonotonic(true)
					for p := 0; p < np; p++ {
						dp := s.DataPoints().AppendEmpty()
						dp.SetIntValue(int64(p))
						x.attrs(dp.Attributes(), 0)
					}
				case 2:
					h := m.SetEmptyHistogram()
					for p := 0; p < np; p++ {
						dp := h.DataPoints().AppendEmpty()
						dp.SetCount(uint64(p))
						dp.BucketCounts().FromRaw([]uint64{1, 2})
						x.attrs(dp.Attributes(), 0)
					}
				case 3:
					h := m.SetEmptyExponentialHistogram()
					for p := 0; p < np; p++ {
						dp := h.DataPoints().AppendEmpty()
						dp.SetCount(uint64(p))
						x.attrs(dp.Attributes(), 0)
					}
				case 4:
					s := m.SetEmptySummary()
					for p := 0; p < np; p++ {
						dp := s.DataPoints().AppendEmpty()
						dp.SetCount(uint64(p))
						x.attrs(dp.Attributes(), 0)
					}
				default:
					// empty metric
				}
			}
		}
	}
	return md
}

func genCase(t *rapid.T, rec *kit.Recorder) *Case {
	c := &Case{Signal: rapid.SampledFrom([]string{"traces", "logs", "metrics"}).Draw(t, "signal")}
	c.KeySeed = rapid.Uint64Range(1, 1<<20).Draw(t, "keyseed")
	x := &g{t: t, rec: rec}
	for i := 0; i < rapid.IntRange(0, 3).Draw(t, "nown"); i++ {
		x.own = append(x.own, rapid.StringN(0, 10, 30).Draw(t, "ownstr"))
	}
	if rapid.Bool().Draw(t, "listmode") {
		n := rapid.IntRange(1, 4).Draw(t, "nlist")
		seen := map[string]bool{}
		for i := 0; i < n; i++ {
			k := rapid.SampledFrom(keyPool).Draw(t, "listkey")
			if !seen[k] {
				seen[k] = true
				c.List = append(c.List, k)
			}
		}
		x.list = c.List
	}
	nd := rapid.IntRange(1, 4).Draw(t, "ndocs")
	for i := 0; i < nd; i++ {
		var b []byte
		switch c.Signal {
		case "traces":
			b, _ = (&ptrace.ProtoMarshaler{}).MarshalTraces(x.traces())
		case "logs":
			b, _ = (&plog.ProtoMarshaler{}).MarshalLogs(x.logs())
		default:
			b, _ = (&pmetric.ProtoMarshaler{}).MarshalMetrics(x.metrics())
		}
		c.Docs = append(c.Docs, b)
	}
	if x.long > 0 && rec != nil {
		rec.Label("gen:string_of_255_to_262144_bytes", 1)
	}
	if x.chain > 0 && rec != nil {
		rec.Label("gen:value_nested_9_to_300_levels_deep", 1)
	}
	return c
}

// TestC17: structure preserved; targeted strings replaced by same-length
// substitutes that are a deterministic injection over the instance lifetime.
func TestC17(t *testing.T) {
	rec := kit.Get("C17")
	runRapid(t, func(rt *rapid.T) {
		c := genCase(rt, rec)
		msg, st := Verdict(c)
		mode := "encrypt_all"
		if len(c.List) > 0 {
			mode = "encrypt_attributes"
		}
		labels := []string{"mode=" + mode, "signal=" + c.Signal, fmt.Sprintf("docs=%d", len(c.Docs))}
		if st.Kept > 0 && len(c.List) > 0 {
			labels = append(labels, "list_mode_with_unlisted_values")
		}
		if st.Targeted > 0 && len(c.List) > 0 {
			labels = append(labels, "list_mode_with_listed_values")
		}
		nontrivial := st.Targeted >= 2 && (len(c.List) == 0 || st.Kept > 0)
		rec.Case(nontrivial, fmt.Sprintf("%s/%s/%d/t%s/k%s/d%s", c.Signal, mode, len(c.Docs), bucket(st.Targeted), bucket(st.Kept), bucket(st.Distinct)), labels, func() any {
			return map[string]any{"signal": c.Signal, "mode": mode, "encrypt_attributes": c.List, "documents": len(c.Docs), "targeted_strings": st.Targeted, "distinct_originals": st.Distinct, "non_targeted_values": st.Kept}
		})
		if msg != "" {
			rec.Fail(rt, c, "%s (mode %s, list %q)", msg, mode, c.List)
		}
	})
}

func bucket(n int) string {
	switch {
	case n == 0:
		return "0"
	case n < 4:
		return "1-3"
	case n < 16:
		return "4-15"
	case n < 64:
		return "16-63"
	default:
		return ">=64"
	}
}

// BulkCase sends many same-length strings through one instance as span names
// (the injectivity of the substitution on short strings can only be attacked
// by exhausting or densely sampling a length class).
type BulkCase struct {
	KeySeed uint64 `json:"key_seed"`
	Length  int    `json:"length"`
	Count   int    `json:"count"`  // number of strings (the whole class when Count >= 256^Length)
	Stride  uint64 `json:"stride"` // generator of the sample: value_i = (Start + i*Stride) mod 256^Length
	Start   uint64 `json:"start"`
	AsBytes bool   `json:"as_bytes"` // as byte-array attribute values instead of span names
}

func bulkStrings(b *BulkCase) []string {
	if b.Length == 0 {
		// mixed lengths 4..16: distinct originals of different lengths through
		// one instance (a substitute taken from another original would show as
		// a length change or a collision)
		out := make([]string, 0, b.Count)
		seen := map[string]bool{}
		for i := 0; i < b.Count; i++ {
			v := b.Start + uint64(i)*b.Stride
			v ^= v >> 29
			v *= 0xbf58476d1ce4e5b9
			v ^= v >> 32
			x := fmt.Sprintf("%016x", v)[:4+int(v%13)]
			if !seen[x] {
				seen[x] = true
				out = append(out, x)
			}
		}
		return out
	}
	space := uint64(1)
	for i := 0; i < b.Length && i < 8; i++ {
		space *= 256
	}
	n := b.Count
	if b.Length <= 7 && uint64(n) > space {
		n = int(space)
	}
	out := make([]string, 0, n)
	seen := map[uint64]bool{}
	for i := 0; i < n; i++ {
		v := b.Start + uint64(i)*b.Stride
		if b.Length <= 7 {
			v %= space
		}
		if seen[v] {
			continue
		}
		seen[v] = true
		buf := make([]byte, b.Length)
		x := v
		for j := b.Length - 1; j >= 0; j-- {
			buf[j] = byte(x)
			x >>= 8
		}
		out = append(out, string(buf))
	}
	return out
}

func bulkVerdict(b *BulkCase) (string, int) {
	ins := bulkStrings(b)
	td := ptrace.NewTraces()
	ss := td.ResourceSpans().AppendEmpty().ScopeSpans().AppendEmpty()
	ss.Spans().EnsureCapacity(len(ins))
	for _, s := range ins {
		sp := ss.Spans().AppendEmpty()
		if b.AsBytes {
			sp.Attributes().PutEmptyBytes("b").FromRaw([]byte(s))
		} else {
			sp.SetName(s)
		}
	}
	raw, _ := (&ptrace.ProtoMarshaler{}).MarshalTraces(td)
	msg, st := Verdict(&Case{Signal: "traces", KeySeed: b.KeySeed, Docs: [][]byte{raw}})
	return msg, st.Distinct
}

// TestC17Bulk: whole length classes (all 256 one-byte strings, all 65,536
// two-byte strings) and dense samples of longer classes through one instance.
func TestC17Bulk(t *testing.T) {
	rec := kit.Get("C17")
	rapid.Check(t, func(rt *rapid.T) {
		b := &BulkCase{KeySeed: rapid.Uint64Range(1, 1<<20).Draw(rt, "keyseed")}
		b.Length = rapid.SampledFrom([]int{0, 1, 2, 3, 0, 4, 5, 7, 8, 16}).Draw(rt, "length")
		b.AsBytes = rapid.IntRange(0, 3).Draw(rt, "asbytes") == 0
		switch b.Length {
		case 0:
			b.Count = rapid.SampledFrom([]int{120000, 60000}).Draw(rt, "mixedcount")
			if thoroughTier() {
				b.Count *= 3
			}
			b.Stride = rapid.Uint64Range(1, 1<<40).Draw(rt, "stride") | 1
			b.Start = rapid.Uint64().Draw(rt, "start")
		case 1:
			b.Count, b.Stride = 256, 1
		case 2:
			b.Count, b.Stride = 65536, 1
		default:
			b.Count = rapid.SampledFrom([]int{20000, 60000}).Draw(rt, "count")
			b.Stride = rapid.Uint64Range(1, 1<<40).Draw(rt, "stride") | 1
			b.Start = rapid.Uint64().Draw(rt, "start")
		}
		msg, n := bulkVerdict(b)
		labels := []string{fmt.Sprintf("bulk_length=%d", b.Length)}
		if b.Length <= 2 {
			labels = append(labels, "whole_length_class_enumerated")
		}
		rec.Label("bulk_strings", n)
		rec.Case(true, fmt.Sprintf("bulk/%d/%v/%d", b.Length, b.AsBytes, b.KeySeed%64), labels, func() any { return map[string]any{"bulk": b, "distinct_strings": n} })
		if msg != "" {
			rec.Fail(rt, b, "%s (bulk: %d strings of %d bytes, key seed %d)", msg, n, b.Length, b.KeySeed)
		}
	})
}

func thoroughTier() bool { return os.Getenv("VERIF_TIER") == "thorough" }

// TestReplay re-executes saved cases without rapid.
func TestReplay(t *testing.T) {
	cases, err := kit.LoadReplays("C17")
	if err != nil {
		t.Fatalf("loading replays: %v", err)
	}
	var files []string
	for f := range cases {
		files = append(files, f)
	}
	sort.Strings(files)
	for _, path := range files {
		fmt.Printf("REPLAY-START property=C17 file=%s\n", path)
		msg := ""
		if strings.Contains(string(cases[path]), `"stride"`) {
			var b BulkCase
			if err := json.Unmarshal(cases[path], &b); err != nil {
				t.Fatalf("%s: %v", path, err)
			}
			msg, _ = bulkVerdict(&b)
		} else {
			var c Case
			if err := json.Unmarshal(cases[path], &c); err != nil {
				t.Fatalf("%s: %v", path, err)
			}
			msg, _ = Verdict(&c)
		}
		if msg != "" {
			fmt.Printf("REPLAY-FAIL property=C17 file=%s\n%s\n", path, msg)
			t.Errorf("%s: %s", path, msg)
		} else {
			fmt.Printf("REPLAY-OK property=C17 file=%s\n", path)
		}
	}
}

// TestDumpReplay prints a saved case as OTLP JSON.
func TestDumpReplay(t *testing.T) {
	p := os.Getenv("VERIF_REPLAY")
	if p == "" {
		t.Skip("VERIF_REPLAY not set")
	}
	b, err := os.ReadFile(p)
	if err != nil {
		t.Fatal(err)
	}
	var rp kit.Replay
	if err := json.Unmarshal(b, &rp); err != nil {
		t.Fatal(err)
	}
	var c Case
	if err := json.Unmarshal(rp.Case, &c); err != nil {
		t.Fatal(err)
	}
	fmt.Printf("message: %s\nsignal %s list %q seed %d\n", rp.Message, c.Signal, c.List, c.KeySeed)
	for i, d := range c.Docs {
		var js []byte
		switch c.Signal {
		case "traces":
			x, _ := (&ptrace.ProtoUnmarshaler{}).UnmarshalTraces(d)
			js, _ = (&ptrace.JSONMarshaler{}).MarshalTraces(x)
		case "logs":
			x, _ := (&plog.ProtoUnmarshaler{}).UnmarshalLogs(d)
			js, _ = (&plog.JSONMarshaler{}).MarshalLogs(x)
		default:
			x, _ := (&pmetric.ProtoUnmarshaler{}).UnmarshalMetrics(d)
			js, _ = (&pmetric.JSONMarshaler{}).MarshalMetrics(x)
		}
		fmt.Printf("--- doc %d\n%s\n", i, js)
	}
}

// TestKnownC17 probes the listed known finding with a specific input: it
// learns the substitute U of the listed key "k" from one instance and then
// sends {U: unset, "k": unset} through a fresh instance with the same key.
func TestKnownC17(t *testing.T) {
	const seed = 135725
	doc := func(keys ...string) []byte {
		ld := plog.NewLogs()
		m := ld.ResourceLogs().AppendEmpty().Resource().Attributes()
		for _, k := range keys {
			m.PutEmpty(k)
		}
		b, _ := (&plog.ProtoMarshaler{}).MarshalLogs(ld)
		return b
	}
	u, err := substituteOfKey(seed, "k")
	if err != nil {
		fmt.Printf("KNOWN-NOVERDICT key=list-mode-key-collision %v\n", err)
		return
	}
	msg, _ := Verdict(&Case{Signal: "logs", KeySeed: seed, List: []string{"k"}, Docs: [][]byte{doc(u, "k")}})
	if strings.Contains(msg, "attributes added or dropped") {
		fmt.Printf("KNOWN-REPRODUCED key=list-mode-key-collision substitute of %q is %q; map {%q, %q}: %s\n", "k", u, u, "k", msg)
	} else {
		fmt.Printf("KNOWN-GONE key=list-mode-key-collision (verdict: %q)\n", msg)
	}
}

// runRapid is rapid.Check, except inside FuzzRapid, where the property is fed
// from the bytes of Go's coverage-guided fuzzer (rapid.MakeFuzz): the same
// generator and oracle, steered by the branch coverage of the processor.
var runRapid = func(t *testing.T, prop func(*rapid.T)) { rapid.Check(t, prop) }

func FuzzRapid(f *testing.F) {
	for i := 0; i < 32; i++ {
		f.Add(kit.SeedBytes(fmt.Sprintf("C17/%d", i), 16384))
	}
	f.Fuzz(func(t *testing.T, data []byte) {
		runRapid = func(_ *testing.T, prop func(*rapid.T)) { rapid.MakeFuzz(prop)(t, data) }
		TestC17(t)
	})
}
