// Package obfus is the harness for the obfuscation processor property (C17).
// A case is a processor configuration, a key seed and 1-4 OTLP documents sent
// through ONE processor instance; the oracle walks the input and the output
// trees in parallel.
package obfus

import (
	"context"
	crand "crypto/rand"
	"encoding/hex"
	"fmt"
	"io"
	"sort"
	"sync"

	"go.opentelemetry.io/collector/consumer/consumertest"
	"go.opentelemetry.io/collector/pdata/pcommon"
	"go.opentelemetry.io/collector/pdata/plog"
	"go.opentelemetry.io/collector/pdata/pmetric"
	"go.opentelemetry.io/collector/pdata/ptrace"
	"go.opentelemetry.io/collector/processor/processortest"

	ob "github.com/open-telemetry/otel-arrow/collector/processor/obfuscationprocessor"
)

// Doc is one OTLP request in protobuf form.
type Doc struct {
	Signal string `json:"signal"`
	Proto  []byte `json:"otlp_proto"`
}

// Case is a processor instance and the documents it processes.
type Case struct {
	Signal  string   `json:"signal"`
	KeySeed uint64   `json:"key_seed"`
	List    []string `json:"encrypt_attributes,omitempty"` // empty = encrypt_all
	Docs    [][]byte `json:"docs_otlp_proto"`
}

// seededReader is a deterministic io.Reader (splitmix64) used to pin the
// obfuscation key: the processor reads it from crypto/rand.Reader, which is a
// replaceable package variable.
type seededReader struct{ x uint64 }

func (r *seededReader) Read(p []byte) (int, error) {
	for i := range p {
		r.x += 0x9e3779b97f4a7c15
		z := r.x
		z = (z ^ (z >> 30)) * 0xbf58476d1ce4e5b9
		z = (z ^ (z >> 27)) * 0x94d049bb133111eb
		p[i] = byte(z ^ (z >> 31))
	}
	return len(p), nil
}

var randMu sync.Mutex

func withSeededKey(seed uint64, f func()) {
	randMu.Lock()
	defer randMu.Unlock()
	old := crand.Reader
	crand.Reader = io.Reader(&seededReader{x: seed})
	defer func() { crand.Reader = old }()
	f()
}

// mapping collects the substitution function observed over one processor
// instance, separately for the string and the byte-array renderings.
type mapping struct {
	fwd map[string]string
	rev map[string]string
}

func newMapping() *mapping { return &mapping{fwd: map[string]string{}, rev: map[string]string{}} }

func (m *mapping) observe(domain, in, out, where string) string {
	if len(in) != len(out) {
		return fmt.Sprintf("%s: %s %q (%d bytes) was replaced by %q (%d bytes): byte length not preserved", where, domain, in, len(in), out, len(out))
	}
	ki, ko := domain+"\x00"+in, domain+"\x00"+out
	if prev, ok := m.fwd[ki]; ok && prev != out {
		return fmt.Sprintf("%s: %s %q was replaced by %q here and by %q elsewhere in the lifetime of the instance (not a function of the original)", where, domain, in, out, prev)
	}
	if prev, ok := m.rev[ko]; ok && prev != in {
		return fmt.Sprintf("%s: different %ss %q and %q were both replaced by %q (not injective)", where, domain, prev, in, out)
	}
	m.fwd[ki] = out
	m.rev[ko] = in
	return ""
}

type walker struct {
	m        *mapping
	all      bool
	list     map[string]bool
	targeted int
	kept     int
	// targeted strings that came out unchanged, with where it happened: the
	// substitution may have fixed points, so this is only suspicious - it is
	// settled by probing the same instance with the string in a position that
	// is certainly targeted (see probeUnchanged)
	unchanged map[string]string
}

func (w *walker) noteUnchanged(in, out, where string) {
	if in == out && len(in) > 0 && len(w.unchanged) < 64 {
		if w.unchanged == nil {
			w.unchanged = map[string]string{}
		}
		if _, ok := w.unchanged[in]; !ok {
			w.unchanged[in] = where
		}
	}
}

func (w *walker) str(targeted bool, in, out, where string) string {
	if targeted {
		w.targeted++
		w.noteUnchanged(in, out, where)
		return w.m.observe("string", in, out, where)
	}
	w.kept++
	if in != out {
		return fmt.Sprintf("%s: non-targeted string %q was changed to %q", where, in, out)
	}
	return ""
}

// value compares an input value with its output; targeted says whether the
// strings it holds are configured to be obfuscated.
func (w *walker) value(targeted bool, in, out pcommon.Value, where string) string {
	if !targeted {
		// the processor does not descend into a non-targeted value
		w.kept++
		if !in.Equal(out) {
			return fmt.Sprintf("%s: non-targeted %s value was changed from %s to %s", where, in.Type(), in.AsString(), out.AsString())
		}
		return ""
	}
	if in.Type() != out.Type() {
		return fmt.Sprintf("%s: value type changed from %s to %s", where, in.Type(), out.Type())
	}
	switch in.Type() {
	case pcommon.ValueTypeStr:
		return w.str(targeted, in.Str(), out.Str(), where)
	case pcommon.ValueTypeBytes:
		a, b := string(in.Bytes().AsRaw()), string(out.Bytes().AsRaw())
		if targeted {
			w.targeted++
			return w.m.observe("byte string", a, b, where)
		}
		w.kept++
		if a != b {
			return fmt.Sprintf("%s: non-targeted bytes %s were changed to %s", where, hex.EncodeToString([]byte(a)), hex.EncodeToString([]byte(b)))
		}
	case pcommon.ValueTypeSlice:
		if in.Slice().Len() != out.Slice().Len() {
			return fmt.Sprintf("%s: list has %d elements, had %d", where, out.Slice().Len(), in.Slice().Len())
		}
		for i := 0; i < in.Slice().Len(); i++ {
			if msg := w.value(targeted, in.Slice().At(i), out.Slice().At(i), fmt.Sprintf("%s[%d]", where, i)); msg != "" {
				return msg
			}
		}
	case pcommon.ValueTypeMap:
		return w.attrs(in.Map(), out.Map(), where, targeted && w.all)
	default:
		if !in.Equal(out) {
			return fmt.Sprintf("%s: %s value changed from %s to %s", where, in.Type(), in.AsString(), out.AsString())
		}
	}
	return ""
}

// attrs compares an attribute map with its output: same number of entries, in
// the same order, each key either obfuscated (targeted) or unchanged.
// In encrypt_all mode every key and value is targeted. In list mode an entry
// is targeted iff its key is listed (the same rule applies to the keys of a
// map nested inside a targeted value).
func (w *walker) attrs(in, out pcommon.Map, where string, _ bool) string {
	if in.Len() != out.Len() {
		return fmt.Sprintf("%s: %d attributes in, %d attributes out (attributes added or dropped)", where, in.Len(), out.Len())
	}
	type kv struct {
		k string
		v pcommon.Value
	}
	var ins, outs []kv
	in.Range(func(k string, v pcommon.Value) bool { ins = append(ins, kv{k, v}); return true })
	out.Range(func(k string, v pcommon.Value) bool { outs = append(outs, kv{k, v}); return true })
	for i := range ins {
		targeted := w.all || w.list[ins[i].k]
		at := fmt.Sprintf("%s{%q}", where, ins[i].k)
		if msg := w.str(targeted, ins[i].k, outs[i].k, at+" key"); msg != "" {
			return msg + " (or attributes were reordered)"
		}
		if targeted {
			if msg := w.value(true, ins[i].v, outs[i].v, at); msg != "" {
				return msg
			}
		} else {
			if msg := w.value(false, ins[i].v, outs[i].v, at); msg != "" {
				return msg
			}
		}
	}
	return ""
}

func (w *walker) resource(in, out pcommon.Resource, where string) string {
	if in.DroppedAttributesCount() != out.DroppedAttributesCount() {
		return where + ": resource dropped_attributes_count changed"
	}
	return w.attrs(in.Attributes(), out.Attributes(), where+".resource", true)
}

func (w *walker) traces(in, out ptrace.Traces) string {
	if in.ResourceSpans().Len() != out.ResourceSpans().Len() {
		return fmt.Sprintf("%d resources in, %d out", in.ResourceSpans().Len(), out.ResourceSpans().Len())
	}
	for i := 0; i < in.ResourceSpans().Len(); i++ {
		ri, ro := in.ResourceSpans().At(i), out.ResourceSpans().At(i)
		at := fmt.Sprintf("resource[%d]", i)
		if ri.SchemaUrl() != ro.SchemaUrl() {
			return at + ": schema URL changed"
		}
		if msg := w.resource(ri.Resource(), ro.Resource(), at); msg != "" {
			return msg
		}
		if ri.ScopeSpans().Len() != ro.ScopeSpans().Len() {
			return fmt.Sprintf("%s: %d scopes in, %d out", at, ri.ScopeSpans().Len(), ro.ScopeSpans().Len())
		}
		for j := 0; j < ri.ScopeSpans().Len(); j++ {
			si, so := ri.ScopeSpans().At(j), ro.ScopeSpans().At(j)
			at := fmt.Sprintf("%s.scope[%d]", at, j)
			if si.SchemaUrl() != so.SchemaUrl() {
				return at + ": schema URL changed"
			}
			// scope name and version of traces are rewritten in both modes
			if msg := w.str(true, si.Scope().Name(), so.Scope().Name(), at+".name"); msg != "" {
				return msg
			}
			if msg := w.str(true, si.Scope().Version(), so.Scope().Version(), at+".version"); msg != "" {
				return msg
			}
			if msg := w.attrs(si.Scope().Attributes(), so.Scope().Attributes(), at+".attributes", true); msg != "" {
				return msg
			}
			if si.Spans().Len() != so.Spans().Len() {
				return fmt.Sprintf("%s: %d spans in, %d out", at, si.Spans().Len(), so.Spans().Len())
			}
			for k := 0; k < si.Spans().Len(); k++ {
				a, b := si.Spans().At(k), so.Spans().At(k)
				at := fmt.Sprintf("%s.span[%d]", at, k)
				if a.TraceID() != b.TraceID() || a.SpanID() != b.SpanID() || a.ParentSpanID() != b.ParentSpanID() || a.Kind() != b.Kind() ||
					a.StartTimestamp() != b.StartTimestamp() || a.EndTimestamp() != b.EndTimestamp() || a.TraceState().AsRaw() != b.TraceState().AsRaw() ||
					a.DroppedAttributesCount() != b.DroppedAttributesCount() || a.DroppedEventsCount() != b.DroppedEventsCount() || a.DroppedLinksCount() != b.DroppedLinksCount() ||
					a.Status().Code() != b.Status().Code() {
					return at + ": a non-string field of the span changed (or spans were reordered)"
				}
				if msg := w.str(true, a.Name(), b.Name(), at+".name"); msg != "" {
					return msg
				}
				if msg := w.str(true, a.Status().Message(), b.Status().Message(), at+".status.message"); msg != "" {
					return msg
				}
				if msg := w.attrs(a.Attributes(), b.Attributes(), at+".attributes", true); msg != "" {
					return msg
				}
				if a.Events().Len() != b.Events().Len() {
					return fmt.Sprintf("%s: %d events in, %d out", at, a.Events().Len(), b.Events().Len())
				}
				for e := 0; e < a.Events().Len(); e++ {
					x, y := a.Events().At(e), b.Events().At(e)
					at := fmt.Sprintf("%s.event[%d]", at, e)
					if x.Timestamp() != y.Timestamp() || x.DroppedAttributesCount() != y.DroppedAttributesCount() {
						return at + ": a non-string field of the event changed (or events were reordered)"
					}
					if msg := w.str(true, x.Name(), y.Name(), at+".name"); msg != "" {
						return msg
					}
					if msg := w.attrs(x.Attributes(), y.Attributes(), at+".attributes", true); msg != "" {
						return msg
					}
				}
				if a.Links().Len() != b.Links().Len() {
					return fmt.Sprintf("%s: %d links in, %d out", at, a.Links().Len(), b.Links().Len())
				}
				for e := 0; e < a.Links().Len(); e++ {
					x, y := a.Links().At(e), b.Links().At(e)
					at := fmt.Sprintf("%s.link[%d]", at, e)
					if x.TraceID() != y.TraceID() || x.SpanID() != y.SpanID() || x.TraceState().AsRaw() != y.TraceState().AsRaw() || x.DroppedAttributesCount() != y.DroppedAttributesCount() {
						return at + ": a non-attribute field of the link changed (or links were reordered)"
					}
					if msg := w.attrs(x.Attributes(), y.Attributes(), at+".attributes", true); msg != "" {
						return msg
					}
				}
			}
		}
	}
	return ""
}

func (w *walker) scopePlain(in, out pcommon.InstrumentationScope, at string) string {
	if in.Name() != out.Name() || in.Version() != out.Version() || in.DroppedAttributesCount() != out.DroppedAttributesCount() {
		return at + ": scope name/version/dropped count changed"
	}
	return w.attrs(in.Attributes(), out.Attributes(), at+".attributes", true)
}

func (w *walker) logs(in, out plog.Logs) string {
	if in.ResourceLogs().Len() != out.ResourceLogs().Len() {
		return fmt.Sprintf("%d resources in, %d out", in.ResourceLogs().Len(), out.ResourceLogs().Len())
	}
	for i := 0; i < in.ResourceLogs().Len(); i++ {
		ri, ro := in.ResourceLogs().At(i), out.ResourceLogs().At(i)
		at := fmt.Sprintf("resource[%d]", i)
		if ri.SchemaUrl() != ro.SchemaUrl() {
			return at + ": schema URL changed"
		}
		if msg := w.resource(ri.Resource(), ro.Resource(), at); msg != "" {
			return msg
		}
		if ri.ScopeLogs().Len() != ro.ScopeLogs().Len() {
			return fmt.Sprintf("%s: %d scopes in, %d out", at, ri.ScopeLogs().Len(), ro.ScopeLogs().Len())
		}
		for j := 0; j < ri.ScopeLogs().Len(); j++ {
			si, so := ri.ScopeLogs().At(j), ro.ScopeLogs().At(j)
			at := fmt.Sprintf("%s.scope[%d]", at, j)
			if si.SchemaUrl() != so.SchemaUrl() {
				return at + ": schema URL changed"
			}
			if msg := w.scopePlain(si.Scope(), so.Scope(), at); msg != "" {
				return msg
			}
			if si.LogRecords().Len() != so.LogRecords().Len() {
				return fmt.Sprintf("%s: %d log records in, %d out", at, si.LogRecords().Len(), so.LogRecords().Len())
			}
			for k := 0; k < si.LogRecords().Len(); k++ {
				a, b := si.LogRecords().At(k), so.LogRecords().At(k)
				at := fmt.Sprintf("%s.log[%d]", at, k)
				if a.Timestamp() != b.Timestamp() || a.ObservedTimestamp() != b.ObservedTimestamp() || a.SeverityNumber() != b.SeverityNumber() ||
					a.SeverityText() != b.SeverityText() || a.TraceID() != b.TraceID() || a.SpanID() != b.SpanID() || a.Flags() != b.Flags() ||
					a.DroppedAttributesCount() != b.DroppedAttributesCount() || !a.Body().Equal(b.Body()) {
					return at + ": a non-targeted field of the log record changed (or records were reordered)"
				}
				if msg := w.attrs(a.Attributes(), b.Attributes(), at+".attributes", true); msg != "" {
					return msg
				}
			}
		}
	}
	return ""
}

func (w *walker) points(n int, attrs func(int) (pcommon.Map, pcommon.Map), at string) string {
	for i := 0; i < n; i++ {
		a, b := attrs(i)
		if msg := w.attrs(a, b, fmt.Sprintf("%s.point[%d].attributes", at, i), true); msg != "" {
			return msg
		}
	}
	return ""
}

func (w *walker) metrics(in, out pmetric.Metrics) string {
	if in.ResourceMetrics().Len() != out.ResourceMetrics().Len() {
		return fmt.Sprintf("%d resources in, %d out", in.ResourceMetrics().Len(), out.ResourceMetrics().Len())
	}
	for i := 0; i < in.ResourceMetrics().Len(); i++ {
		ri, ro := in.ResourceMetrics().At(i), out.ResourceMetrics().At(i)
		at := fmt.Sprintf("resource[%d]", i)
		if ri.SchemaUrl() != ro.SchemaUrl() {
			return at + ": schema URL changed"
		}
		if msg := w.resource(ri.Resource(), ro.Resource(), at); msg != "" {
			return msg
		}
		if ri.ScopeMetrics().Len() != ro.ScopeMetrics().Len() {
			return fmt.Sprintf("%s: %d scopes in, %d out", at, ri.ScopeMetrics().Len(), ro.ScopeMetrics().Len())
		}
		for j := 0; j < ri.ScopeMetrics().Len(); j++ {
			si, so := ri.ScopeMetrics().At(j), ro.ScopeMetrics().At(j)
			at := fmt.Sprintf("%s.scope[%d]", at, j)
			if si.SchemaUrl() != so.SchemaUrl() {
				return at + ": schema URL changed"
			}
			if msg := w.scopePlain(si.Scope(), so.Scope(), at); msg != "" {
				return msg
			}
			if si.Metrics().Len() != so.Metrics().Len() {
				return fmt.Sprintf("%s: %d metrics in, %d out", at, si.Metrics().Len(), so.Metrics().Len())
			}
			for k := 0; k < si.Metrics().Len(); k++ {
				a, b := si.Metrics().At(k), so.Metrics().At(k)
				at := fmt.Sprintf("%s.metric[%d]", at, k)
				if a.Name() != b.Name() || a.Description() != b.Description() || a.Unit() != b.Unit() || a.Type() != b.Type() {
					return at + ": metric descriptor changed (or metrics were reordered)"
				}
				// numeric content: compare with the attributes blanked out
				if msg := w.metricPoints(a, b, at); msg != "" {
					return msg
				}
			}
		}
	}
	return ""
}

func (w *walker) metricPoints(a, b pmetric.Metric, at string) string {
	switch a.Type() {
	case pmetric.MetricTypeGauge:
		x, y := a.Gauge().DataPoints(), b.Gauge().DataPoints()
		if x.Len() != y.Len() {
			return fmt.Sprintf("%s: %d points in, %d out", at, x.Len(), y.Len())
		}
		for i := 0; i < x.Len(); i++ {
			if x.At(i).ValueType() != y.At(i).ValueType() || x.At(i).IntValue() != y.At(i).IntValue() || x.At(i).Timestamp() != y.At(i).Timestamp() || x.At(i).Exemplars().Len() != y.At(i).Exemplars().Len() {
				return fmt.Sprintf("%s.point[%d]: numeric content changed (or points were reordered)", at, i)
			}
		}
		return w.points(x.Len(), func(i int) (pcommon.Map, pcommon.Map) { return x.At(i).Attributes(), y.At(i).Attributes() }, at)
	case pmetric.MetricTypeSum:
		x, y := a.Sum().DataPoints(), b.Sum().DataPoints()
		if x.Len() != y.Len() {
			return fmt.Sprintf("%s: %d points in, %d out", at, x.Len(), y.Len())
		}
		if a.Sum().IsMonotonic() != b.Sum().IsMonotonic() || a.Sum().AggregationTemporality() != b.Sum().AggregationTemporality() {
			return at + ": sum descriptor changed"
		}
		for i := 0; i < x.Len(); i++ {
			if x.At(i).ValueType() != y.At(i).ValueType() || x.At(i).IntValue() != y.At(i).IntValue() || x.At(i).Timestamp() != y.At(i).Timestamp() {
				return fmt.Sprintf("%s.point[%d]: numeric content changed (or points were reordered)", at, i)
			}
		}
		return w.points(x.Len(), func(i int) (pcommon.Map, pcommon.Map) { return x.At(i).Attributes(), y.At(i).Attributes() }, at)
	case pmetric.MetricTypeHistogram:
		x, y := a.Histogram().DataPoints(), b.Histogram().DataPoints()
		if x.Len() != y.Len() {
			return fmt.Sprintf("%s: %d points in, %d out", at, x.Len(), y.Len())
		}
		for i := 0; i < x.Len(); i++ {
			if x.At(i).Count() != y.At(i).Count() || x.At(i).Sum() != y.At(i).Sum() || fmt.Sprint(x.At(i).BucketCounts().AsRaw()) != fmt.Sprint(y.At(i).BucketCounts().AsRaw()) {
				return fmt.Sprintf("%s.point[%d]: numeric content changed (or points were reordered)", at, i)
			}
		}
		return w.points(x.Len(), func(i int) (pcommon.Map, pcommon.Map) { return x.At(i).Attributes(), y.At(i).Attributes() }, at)
	case pmetric.MetricTypeExponentialHistogram:
		x, y := a.ExponentialHistogram().DataPoints(), b.ExponentialHistogram().DataPoints()
		if x.Len() != y.Len() {
			return fmt.Sprintf("%s: %d points in, %d out", at, x.Len(), y.Len())
		}
		for i := 0; i < x.Len(); i++ {
			if x.At(i).Count() != y.At(i).Count() || x.At(i).Scale() != y.At(i).Scale() {
				return fmt.Sprintf("%s.point[%d]: numeric content changed (or points were reordered)", at, i)
			}
		}
		return w.points(x.Len(), func(i int) (pcommon.Map, pcommon.Map) { return x.At(i).Attributes(), y.At(i).Attributes() }, at)
	case pmetric.MetricTypeSummary:
		x, y := a.Summary().DataPoints(), b.Summary().DataPoints()
		if x.Len() != y.Len() {
			return fmt.Sprintf("%s: %d points in, %d out", at, x.Len(), y.Len())
		}
		for i := 0; i < x.Len(); i++ {
			if x.At(i).Count() != y.At(i).Count() || x.At(i).Sum() != y.At(i).Sum() || x.At(i).QuantileValues().Len() != y.At(i).QuantileValues().Len() {
				return fmt.Sprintf("%s.point[%d]: numeric content changed (or points were reordered)", at, i)
			}
		}
		return w.points(x.Len(), func(i int) (pcommon.Map, pcommon.Map) { return x.At(i).Attributes(), y.At(i).Attributes() }, at)
	}
	return ""
}

// Stats describes what a run covered.
type Stats struct {
	Targeted, Kept int
	Distinct       int
}

// Verdict sends the documents of the case through one processor instance and
// applies the oracle.
func Verdict(c *Case) (msg string, st Stats) {
	f := ob.NewFactory()
	cfg := f.CreateDefaultConfig().(*ob.Config)
	if len(c.List) > 0 {
		cfg.EncryptAll = false
		cfg.EncryptAttributes = append([]string(nil), c.List...)
	}
	w := &walker{m: newMapping(), all: len(c.List) == 0, list: map[string]bool{}}
	for _, k := range c.List {
		w.list[k] = true
	}
	ctx := context.Background()
	set := processortest.NewNopSettings(f.Type())
	defer func() {
		if r := recover(); r != nil {
			msg = fmt.Sprintf("processor panicked: %v", r)
		}
		st = Stats{Targeted: w.targeted, Kept: w.kept, Distinct: len(w.m.fwd)}
	}()
	switch c.Signal {
	case "traces":
		sink := &consumertest.TracesSink{}
		var p interface {
			ConsumeTraces(context.Context, ptrace.Traces) error
		}
		var err error
		withSeededKey(c.KeySeed, func() { p, err = f.CreateTraces(ctx, set, cfg, sink) })
		if err != nil {
			return "harness: " + err.Error(), st
		}
		for i, d := range c.Docs {
			in, err := (&ptrace.ProtoUnmarshaler{}).UnmarshalTraces(d)
			if err != nil {
				return "harness: " + err.Error(), st
			}
			orig := ptrace.NewTraces()
			in.CopyTo(orig)
			if err := p.ConsumeTraces(ctx, in); err != nil {
				return fmt.Sprintf("document %d: processor returned %v", i, err), st
			}
			outs := sink.AllTraces()
			if len(outs) != i+1 {
				return fmt.Sprintf("document %d: next consumer received %d documents", i, len(outs)), st
			}
			if m := w.traces(orig, outs[i]); m != "" {
				return fmt.Sprintf("document %d: %s", i, m), st
			}
		}
		if strs := sortedKeys(w.unchanged); len(strs) > 0 {
			td := ptrace.NewTraces()
			for _, x := range strs {
				td.ResourceSpans().AppendEmpty().Resource().Attributes().PutStr(probeKey(c.List), x)
			}
			if err := p.ConsumeTraces(ctx, td); err != nil {
				return "probe: " + err.Error(), st
			}
			out := sink.AllTraces()[len(c.Docs)]
			if m := w.checkProbe(strs, func(i int) (pcommon.Value, bool) {
				return firstValue(out.ResourceSpans().At(i).Resource().Attributes())
			}); m != "" {
				return m, st
			}
		}
	case "logs":
		sink := &consumertest.LogsSink{}
		var p interface {
			ConsumeLogs(context.Context, plog.Logs) error
		}
		var err error
		withSeededKey(c.KeySeed, func() { p, err = f.CreateLogs(ctx, set, cfg, sink) })
		if err != nil {
			return "harness: " + err.Error(), st
		}
		for i, d := range c.Docs {
			in, err := (&plog.ProtoUnmarshaler{}).UnmarshalLogs(d)
			if err != nil {
				return "harness: " + err.Error(), st
			}
			orig := plog.NewLogs()
			in.CopyTo(orig)
			if err := p.ConsumeLogs(ctx, in); err != nil {
				return fmt.Sprintf("document %d: processor returned %v", i, err), st
			}
			outs := sink.AllLogs()
			if len(outs) != i+1 {
				return fmt.Sprintf("document %d: next consumer received %d documents", i, len(outs)), st
			}
			if m := w.logs(orig, outs[i]); m != "" {
				return fmt.Sprintf("document %d: %s", i, m), st
			}
		}
		if strs := sortedKeys(w.unchanged); len(strs) > 0 {
			ld := plog.NewLogs()
			for _, x := range strs {
				ld.ResourceLogs().AppendEmpty().Resource().Attributes().PutStr(probeKey(c.List), x)
			}
			if err := p.ConsumeLogs(ctx, ld); err != nil {
				return "probe: " + err.Error(), st
			}
			out := sink.AllLogs()[len(c.Docs)]
			if m := w.checkProbe(strs, func(i int) (pcommon.Value, bool) {
				return firstValue(out.ResourceLogs().At(i).Resource().Attributes())
			}); m != "" {
				return m, st
			}
		}
	default:
		sink := &consumertest.MetricsSink{}
		var p interface {
			ConsumeMetrics(context.Context, pmetric.Metrics) error
		}
		var err error
		withSeededKey(c.KeySeed, func() { p, err = f.CreateMetrics(ctx, set, cfg, sink) })
		if err != nil {
			return "harness: " + err.Error(), st
		}
		for i, d := range c.Docs {
			in, err := (&pmetric.ProtoUnmarshaler{}).UnmarshalMetrics(d)
			if err != nil {
				return "harness: " + err.Error(), st
			}
			orig := pmetric.NewMetrics()
			in.CopyTo(orig)
			if err := p.ConsumeMetrics(ctx, in); err != nil {
				return fmt.Sprintf("document %d: processor returned %v", i, err), st
			}
			outs := sink.AllMetrics()
			if len(outs) != i+1 {
				return fmt.Sprintf("document %d: next consumer received %d documents", i, len(outs)), st
			}
			if m := w.metrics(orig, outs[i]); m != "" {
				return fmt.Sprintf("document %d: %s", i, m), st
			}
		}
		if strs := sortedKeys(w.unchanged); len(strs) > 0 {
			md := pmetric.NewMetrics()
			for _, x := range strs {
				md.ResourceMetrics().AppendEmpty().Resource().Attributes().PutStr(probeKey(c.List), x)
			}
			if err := p.ConsumeMetrics(ctx, md); err != nil {
				return "probe: " + err.Error(), st
			}
			out := sink.AllMetrics()[len(c.Docs)]
			if m := w.checkProbe(strs, func(i int) (pcommon.Value, bool) {
				return firstValue(out.ResourceMetrics().At(i).Resource().Attributes())
			}); m != "" {
				return m, st
			}
		}
	}
	return "", st
}

func sortedKeys(m map[string]string) []string {
	out := make([]string, 0, len(m))
	for k := range m {
		out = append(out, k)
	}
	sort.Strings(out)
	return out
}

func firstValue(m pcommon.Map) (v pcommon.Value, ok bool) {
	m.Range(func(_ string, x pcommon.Value) bool { v, ok = x, true; return false })
	return
}

// probeDoc builds, for each suspicious string, one resource whose single
// attribute holds the string in a position that is certainly targeted: the
// value of an attribute whose key is listed (list mode) or any key
// (encrypt_all).
func probeKey(list []string) string {
	if len(list) > 0 {
		return list[0]
	}
	return "probe"
}

// checkProbe compares what the instance substituted for the probes with what
// it did where the string was left unchanged.
func (w *walker) checkProbe(strs []string, outAt func(i int) (pcommon.Value, bool)) string {
	for i, sIn := range strs {
		v, ok := outAt(i)
		if !ok || v.Type() != pcommon.ValueTypeStr {
			return fmt.Sprintf("probe for %q: attribute missing or of another type in the output", sIn)
		}
		if v.Str() != sIn {
			return fmt.Sprintf("%s: targeted string %q was left unchanged here, but the same instance replaces it by %q as a plain attribute value (equal inputs must give equal outputs)", w.unchanged[sIn], sIn, v.Str())
		}
	}
	return ""
}

// substituteOfKey returns what the processor instance with this key seed
// substitutes for an attribute key (list mode with that key listed).
func substituteOfKey(seed uint64, key string) (string, error) {
	f := ob.NewFactory()
	cfg := f.CreateDefaultConfig().(*ob.Config)
	cfg.EncryptAll = false
	cfg.EncryptAttributes = []string{key}
	sink := &consumertest.LogsSink{}
	var p interface {
		ConsumeLogs(context.Context, plog.Logs) error
	}
	var err error
	withSeededKey(seed, func() {
		p, err = f.CreateLogs(context.Background(), processortest.NewNopSettings(f.Type()), cfg, sink)
	})
	if err != nil {
		return "", err
	}
	ld := plog.NewLogs()
	ld.ResourceLogs().AppendEmpty().Resource().Attributes().PutStr(key, "v")
	if err := p.ConsumeLogs(context.Background(), ld); err != nil {
		return "", err
	}
	out := ""
	sink.AllLogs()[0].ResourceLogs().At(0).Resource().Attributes().Range(func(k string, _ pcommon.Value) bool { out = k; return false })
	return out, nil
}
