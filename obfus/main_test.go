package obfus

import (
	"os"
	"testing"

	"verif/kit"
)

func TestMain(m *testing.M) {
	code := m.Run()
	kit.FlushAll()
	os.Exit(code)
}
