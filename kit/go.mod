module verif/kit

go 1.23.0
