// Package kit is the small dependency-free support library shared by the three
// harness modules: per-shard evidence recording (evaluation counts, hashes of
// the semantic shape of non-trivial cases, label histograms, samples) and
// library-independent replay files.
//
// A harness process handles one property per run. The driver (/verif/check)
// passes
//
//	VERIF_SHARD_OUT   file the recorder is flushed to when the process ends
//	VERIF_REPLAY_OUT  file a failing case is written to (overwritten by each
//	                  failing execution, so after rapid's shrinking it holds
//	                  the minimal one)
//	VERIF_REPLAY      file or directory of saved cases for the replay tests
package kit

import (
	"crypto/sha256"
	"encoding/json"
	"fmt"
	"hash/fnv"
	"os"
	"path/filepath"
	"sort"
	"strings"
	"sync"
)

// Recorder accumulates what one shard explored.
type Recorder struct {
	mu          sync.Mutex
	Property    string
	evaluations int
	nontrivial  int
	hashes      map[uint64]struct{}
	labels      map[string]int
	samples     []any
	ntSeen      int
	excluded    map[string]int
	failures    int
	notes       map[string]string
}

var (
	regMu    sync.Mutex
	registry = map[string]*Recorder{}
)

// perPID: every process writes its own shard file VERIF_SHARD_OUT.pid<N>.json
// and flushes it periodically (native fuzzing runs the target in worker
// processes that never reach the end of TestMain).
var perPID = os.Getenv("VERIF_SHARD_PER_PID") != ""

// Get returns the recorder of a property, creating it on first use.
func Get(property string) *Recorder {
	regMu.Lock()
	defer regMu.Unlock()
	r := registry[property]
	if r == nil {
		r = &Recorder{Property: property, hashes: map[uint64]struct{}{}, labels: map[string]int{}, excluded: map[string]int{}, notes: map[string]string{}}
		registry[property] = r
	}
	return r
}

// Hash64 is the FNV-1a hash used for semantic-shape hashing.
func Hash64(parts ...string) uint64 {
	h := fnv.New64a()
	for _, p := range parts {
		_, _ = h.Write([]byte(p))
		_, _ = h.Write([]byte{0})
	}
	return h.Sum64()
}

// Case records one executed case. shape is the semantic-shape string of the
// case (only used when nontrivial is true); sample is a function returning a
// human-readable rendering, evaluated only when the case is kept as a sample.
func (r *Recorder) Case(nontrivial bool, shape string, labels []string, sample func() any) {
	r.mu.Lock()
	if perPID && r.evaluations%500 == 499 {
		// fuzz workers are killed by their coordinator: flush as we go
		defer FlushAll()
	}
	defer r.mu.Unlock()
	r.evaluations++
	for _, l := range labels {
		r.labels[l]++
	}
	if !nontrivial {
		return
	}
	r.nontrivial++
	r.hashes[Hash64(shape)] = struct{}{}
	r.ntSeen++
	// keep the 1st, 4th, 16th, 64th, 256th ... non-trivial case (at most 6)
	n := r.ntSeen
	if sample != nil && len(r.samples) < 6 && isPow4(n) {
		r.samples = append(r.samples, sample())
	}
}

func isPow4(n int) bool {
	for n > 1 {
		if n%4 != 0 {
			return false
		}
		n /= 4
	}
	return n == 1
}

// Label bumps a label counter outside Case.
func (r *Recorder) Label(l string, n int) {
	r.mu.Lock()
	r.labels[l] += n
	r.mu.Unlock()
}

// Excluded counts a case (or part of one) that the generator avoided because
// it falls under a listed known finding.
func (r *Recorder) Excluded(key string) {
	r.mu.Lock()
	r.excluded[key]++
	r.mu.Unlock()
}

// Note stores a free-text fact for the evidence file.
func (r *Recorder) Note(k, v string) {
	r.mu.Lock()
	r.notes[k] = v
	r.mu.Unlock()
}

type fataler interface {
	Fatalf(format string, args ...any)
}

// Replay is the on-disk form of a failing (or saved) case.
type Replay struct {
	Property string          `json:"property"`
	Message  string          `json:"message,omitempty"`
	Case     json.RawMessage `json:"case"`
}

// Fail writes the case to VERIF_REPLAY_OUT and fails the test. rapid re-runs
// the property while shrinking, and its last failing execution is the minimal
// one, so the file ends up holding the shrunk case.
func (r *Recorder) Fail(t fataler, c any, format string, args ...any) {
	msg := fmt.Sprintf(format, args...)
	r.mu.Lock()
	r.failures++
	r.mu.Unlock()
	SaveReplay(os.Getenv("VERIF_REPLAY_OUT"), r.Property, msg, c)
	t.Fatalf("%s", msg)
}

// SaveCurrent writes the case about to be executed to VERIF_CURRENT_OUT. It is
// used where a failure can kill the process before a verdict is reached (a
// panic on a goroutine the harness cannot recover, a race-detector halt): the
// driver then reports this file as the replay.
func SaveCurrent(property string, c any) {
	SaveReplay(os.Getenv("VERIF_CURRENT_OUT"), property, "case that was executing when the process died", c)
}

// SaveReplay writes a replay file (no-op when path is empty).
func SaveReplay(path, property, msg string, c any) {
	if path == "" {
		return
	}
	raw, err := json.Marshal(c)
	if err != nil {
		raw, _ = json.Marshal(fmt.Sprintf("unserialisable case: %v", err))
	}
	b, _ := json.MarshalIndent(Replay{Property: property, Message: msg, Case: raw}, "", " ")
	_ = os.MkdirAll(filepath.Dir(path), 0o755)
	tmp := path + ".tmp"
	if os.WriteFile(tmp, b, 0o644) == nil {
		_ = os.Rename(tmp, path)
	}
}

// LoadReplays reads the replay file(s) named by VERIF_REPLAY (a file or a
// directory of *.json) that belong to the property.
func LoadReplays(property string) (map[string]json.RawMessage, error) {
	out := map[string]json.RawMessage{}
	p := os.Getenv("VERIF_REPLAY")
	if p == "" {
		return out, nil
	}
	st, err := os.Stat(p)
	if err != nil {
		if os.IsNotExist(err) {
			return out, nil
		}
		return nil, err
	}
	var files []string
	if st.IsDir() {
		all, _ := filepath.Glob(filepath.Join(p, "*.json"))
		sort.Strings(all)
		for _, f := range all {
			// expensive saved cases (minutes) are named *.thorough.json and are
			// replayed by the thorough tier only (and by --replay <file>)
			if strings.HasSuffix(f, ".thorough.json") && os.Getenv("VERIF_TIER") != "thorough" {
				continue
			}
			files = append(files, f)
		}
	} else {
		files = []string{p}
	}
	for _, f := range files {
		b, err := os.ReadFile(f)
		if err != nil {
			return nil, err
		}
		var rp Replay
		if err := json.Unmarshal(b, &rp); err != nil {
			return nil, fmt.Errorf("%s: %w", f, err)
		}
		if rp.Property != property {
			continue
		}
		out[f] = rp.Case
	}
	return out, nil
}

type shardFile struct {
	Property    string            `json:"property"`
	Evaluations int               `json:"evaluations"`
	Nontrivial  int               `json:"nontrivial"`
	Hashes      []string          `json:"hashes"`
	Labels      map[string]int    `json:"labels"`
	Samples     []any             `json:"samples"`
	Excluded    map[string]int    `json:"excluded_known"`
	Failures    int               `json:"failures"`
	Notes       map[string]string `json:"notes,omitempty"`
}

// FlushAll writes every recorder that saw at least one case to
// VERIF_SHARD_OUT (one process handles one property, so this is one file; with
// several the property id is appended).
func FlushAll() {
	base := os.Getenv("VERIF_SHARD_OUT")
	if base == "" {
		return
	}
	regMu.Lock()
	defer regMu.Unlock()
	var ids []string
	for id, r := range registry {
		if r.evaluations > 0 || len(r.labels) > 0 {
			ids = append(ids, id)
		}
	}
	sort.Strings(ids)
	for i, id := range ids {
		r := registry[id]
		r.mu.Lock()
		sf := shardFile{Property: id, Evaluations: r.evaluations, Nontrivial: r.nontrivial, Labels: r.labels, Samples: r.samples, Excluded: r.excluded, Failures: r.failures, Notes: r.notes}
		for h := range r.hashes {
			sf.Hashes = append(sf.Hashes, fmt.Sprintf("%016x", h))
		}
		sort.Strings(sf.Hashes)
		b, _ := json.Marshal(sf)
		r.mu.Unlock()
		path := base
		if perPID {
			path = fmt.Sprintf("%s.pid%d.json", base, os.Getpid())
		}
		if i > 0 {
			path = strings.TrimSuffix(base, ".json") + "." + id + ".json"
		}
		_ = os.WriteFile(path, b, 0o644)
	}
}

// Truncate shortens long strings for samples.
func Truncate(s string, n int) string {
	if len(s) <= n {
		return s
	}
	return s[:n] + fmt.Sprintf("…(+%d bytes)", len(s)-n)
}

// SeedBytes returns n deterministic pseudo-random bytes derived from the label
// (a SHA-256 chain): starting corpus entries for rapid.MakeFuzz targets.
func SeedBytes(label string, n int) []byte {
	out := make([]byte, 0, n+32)
	h := sha256.Sum256([]byte(label))
	for len(out) < n {
		out = append(out, h[:]...)
		h = sha256.Sum256(h[:])
	}
	return out[:n]
}
