// Package otap is the harness for the OTAP producer/consumer properties
// (C01-C04, C07, C08, C12-C16). A case is a pure value (producer options plus
// OTLP protobuf bytes per batch) so that a failing case can be written out and
// replayed without the generator library.
package otap

import (
	"bytes"
	"fmt"
	"os"
	"runtime/debug"
	"sort"
	"strconv"
	"strings"

	"github.com/apache/arrow-go/v18/arrow"
	"github.com/apache/arrow-go/v18/arrow/memory"
	"go.opentelemetry.io/collector/pdata/plog"
	"go.opentelemetry.io/collector/pdata/pmetric"
	"go.opentelemetry.io/collector/pdata/ptrace"
	"google.golang.org/protobuf/proto"

	colarspb "github.com/open-telemetry/otel-arrow/api/experimental/arrow/v1"
	"github.com/open-telemetry/otel-arrow/pkg/config"
	"github.com/open-telemetry/otel-arrow/pkg/otel/arrow_record"
	"github.com/open-telemetry/otel-arrow/pkg/record_message"

	"verif/otap/canon"
)

// Signal names.
const (
	Traces  = "traces"
	Logs    = "logs"
	Metrics = "metrics"
)

// Options is the JSON form of the producer options of pkg/config that the
// properties range over. Zero value = default producer.
type Options struct {
	Dict           string   `json:"dict,omitempty"`            // "", "none", "u8", "u16", "u32", "u64" (limit)
	ResetThreshold *float64 `json:"reset_threshold,omitempty"` // WithDictResetThreshold
	Zstd           *bool    `json:"zstd,omitempty"`            // WithZstd / WithNoZstd
	OrderSpanBy    *int     `json:"order_span_by,omitempty"`
	OrderAttrs16By *int     `json:"order_attrs16_by,omitempty"`
	OrderAttrs32By *int     `json:"order_attrs32_by,omitempty"`
	// the remaining public options, used where a property says "all producer
	// options" (C08, C15, C16)
	InitDict string   `json:"init_dict,omitempty"` // "u8", "u16", "u32", "u64": With*InitDictIndex
	Stats    []string `json:"stats,omitempty"`     // "schema", "updates", "record", "producer", "compression", "dump:<PAYLOAD_TYPE>:<rows>"
}

func (o Options) String() string {
	var p []string
	if o.Dict != "" {
		p = append(p, "dict="+o.Dict)
	}
	if o.ResetThreshold != nil {
		p = append(p, fmt.Sprintf("reset=%g", *o.ResetThreshold))
	}
	if o.Zstd != nil {
		p = append(p, fmt.Sprintf("zstd=%v", *o.Zstd))
	}
	if o.OrderSpanBy != nil {
		p = append(p, fmt.Sprintf("span_order=%d", *o.OrderSpanBy))
	}
	if o.OrderAttrs16By != nil {
		p = append(p, fmt.Sprintf("attrs16_order=%d", *o.OrderAttrs16By))
	}
	if o.OrderAttrs32By != nil {
		p = append(p, fmt.Sprintf("attrs32_order=%d", *o.OrderAttrs32By))
	}
	if o.InitDict != "" {
		p = append(p, "init="+o.InitDict)
	}
	if len(o.Stats) > 0 {
		p = append(p, "stats="+strings.Join(o.Stats, "+"))
	}
	if len(p) == 0 {
		return "default"
	}
	return strings.Join(p, ",")
}

// Build turns the options into config.Option values.
func (o Options) Build() []config.Option {
	var opts []config.Option
	switch o.Dict {
	case "none":
		opts = append(opts, config.WithNoDictionary())
	case "u8":
		opts = append(opts, config.WithUint8LimitDictIndex())
	case "u16":
		opts = append(opts, config.WithUint16LimitDictIndex())
	case "u32":
		opts = append(opts, config.WithUint32LimitDictIndex())
	case "u64":
		opts = append(opts, config.WithUint64LimitDictIndex())
	default:
		// "custom:<n>": a caller-written config.Option that sets the exported
		// Config.LimitIndexSize field to a value that is not an index-type
		// capacity (only used where the property says "arbitrary options": C16)
		if strings.HasPrefix(o.Dict, "custom:") {
			if n, err := strconv.ParseUint(strings.TrimPrefix(o.Dict, "custom:"), 10, 64); err == nil {
				opts = append(opts, func(c *config.Config) { c.LimitIndexSize = n })
			}
		}
	}
	if o.ResetThreshold != nil {
		opts = append(opts, config.WithDictResetThreshold(*o.ResetThreshold))
	}
	if o.Zstd != nil {
		if *o.Zstd {
			opts = append(opts, config.WithZstd())
		} else {
			opts = append(opts, config.WithNoZstd())
		}
	}
	if o.OrderSpanBy != nil {
		opts = append(opts, config.WithOrderSpanBy(config.OrderSpanBy(*o.OrderSpanBy)))
	}
	if o.OrderAttrs16By != nil {
		opts = append(opts, config.WithOrderAttrs16By(config.OrderAttrs16By(*o.OrderAttrs16By)))
	}
	if o.OrderAttrs32By != nil {
		opts = append(opts, config.WithOrderAttrs32By(config.OrderAttrs32By(*o.OrderAttrs32By)))
	}
	switch o.InitDict {
	case "u8":
		opts = append(opts, config.WithUint8InitDictIndex())
	case "u16":
		opts = append(opts, config.WithUint16InitDictIndex())
	case "u32":
		opts = append(opts, config.WithUint32LinitDictIndex())
	case "u64":
		opts = append(opts, config.WithUint64InitDictIndex())
	}
	for _, st := range o.Stats {
		switch {
		case st == "schema":
			opts = append(opts, config.WithSchemaStats())
		case st == "updates":
			opts = append(opts, config.WithSchemaUpdates())
		case st == "record":
			opts = append(opts, config.WithRecordStats())
		case st == "producer":
			opts = append(opts, config.WithProducerStats())
		case st == "compression":
			opts = append(opts, config.WithCompressionRatioStats())
		case strings.HasPrefix(st, "dump:"):
			p := strings.Split(st, ":")
			if len(p) == 3 {
				if n, err := strconv.Atoi(p[2]); err == nil {
					opts = append(opts, config.WithDumpRecordRows(p[1], n))
				}
			}
		}
	}
	return opts
}

// DictLimit is the configured dictionary limit in entries (0 = none allowed).
func (o Options) DictLimit() uint64 {
	switch o.Dict {
	case "none":
		return 0
	case "u8":
		return 1<<8 - 1
	case "u32":
		return 1<<32 - 1
	case "u64":
		return 1<<64 - 1
	default:
		return 1<<16 - 1
	}
}

// Batch is one OTLP request in protobuf form.
type Batch struct {
	Signal string `json:"signal"`
	Proto  []byte `json:"otlp_proto"`
	// Synth describes a batch that is built instead of being stored (hand
	// written regression cases whose protobuf form would be megabytes), see
	// synth.go. Only used when Proto is empty.
	Synth string `json:"synth,omitempty"`
}

// StreamCase is a stream history with the options of its producer.
type StreamCase struct {
	Options Options `json:"options"`
	Batches []Batch `json:"batches"`
}

// Input is the decoded form of a Batch.
type Input struct {
	Signal  string
	Traces  ptrace.Traces
	Logs    plog.Logs
	Metrics pmetric.Metrics
}

// TracesBatch / LogsBatch / MetricsBatch serialise pdata into a Batch.
func TracesBatch(td ptrace.Traces) Batch {
	b, err := (&ptrace.ProtoMarshaler{}).MarshalTraces(td)
	if err != nil {
		panic(err)
	}
	return Batch{Signal: Traces, Proto: b}
}

func LogsBatch(ld plog.Logs) Batch {
	b, err := (&plog.ProtoMarshaler{}).MarshalLogs(ld)
	if err != nil {
		panic(err)
	}
	return Batch{Signal: Logs, Proto: b}
}

func MetricsBatch(md pmetric.Metrics) Batch {
	b, err := (&pmetric.ProtoMarshaler{}).MarshalMetrics(md)
	if err != nil {
		panic(err)
	}
	return Batch{Signal: Metrics, Proto: b}
}

// Decode parses the protobuf bytes.
func (b Batch) Decode() (Input, error) {
	if b.Synth != "" && len(b.Proto) == 0 {
		return synthInput(b.Signal, b.Synth)
	}
	in := Input{Signal: b.Signal}
	var err error
	switch b.Signal {
	case Traces:
		in.Traces, err = (&ptrace.ProtoUnmarshaler{}).UnmarshalTraces(b.Proto)
	case Logs:
		in.Logs, err = (&plog.ProtoUnmarshaler{}).UnmarshalLogs(b.Proto)
	case Metrics:
		in.Metrics, err = (&pmetric.ProtoUnmarshaler{}).UnmarshalMetrics(b.Proto)
	default:
		err = fmt.Errorf("unknown signal %q", b.Signal)
	}
	return in, err
}

// Canon is the canonical multiset of the input.
func (in Input) Canon() []string {
	switch in.Signal {
	case Traces:
		return canon.Spans(in.Traces)
	case Logs:
		return canon.Logs(in.Logs)
	default:
		return canon.Metrics(in.Metrics)
	}
}

// Marshal re-serialises the input (for the immutability oracle).
func (in Input) Marshal() []byte {
	switch in.Signal {
	case Traces:
		return TracesBatch(in.Traces).Proto
	case Logs:
		return LogsBatch(in.Logs).Proto
	default:
		return MetricsBatch(in.Metrics).Proto
	}
}

// Items counts spans / log records / metrics.
func (in Input) Items() int {
	switch in.Signal {
	case Traces:
		return in.Traces.SpanCount()
	case Logs:
		return in.Logs.LogRecordCount()
	default:
		return in.Metrics.MetricCount()
	}
}

// Keys returns one string per item built from fields that live in the main
// record of the signal only (no attributes, events, links or data points):
// what must survive whenever a main record is decoded at all.
func (in Input) Keys() []string {
	var ks []string
	switch in.Signal {
	case Traces:
		rss := in.Traces.ResourceSpans()
		for i := 0; i < rss.Len(); i++ {
			for j := 0; j < rss.At(i).ScopeSpans().Len(); j++ {
				sps := rss.At(i).ScopeSpans().At(j).Spans()
				for k := 0; k < sps.Len(); k++ {
					sp := sps.At(k)
					ks = append(ks, fmt.Sprintf("%q %x %x %d %d %d", sp.Name(), sp.TraceID(), sp.SpanID(), uint64(sp.StartTimestamp()), sp.Kind(), sp.Status().Code()))
				}
			}
		}
	case Logs:
		rls := in.Logs.ResourceLogs()
		for i := 0; i < rls.Len(); i++ {
			for j := 0; j < rls.At(i).ScopeLogs().Len(); j++ {
				lrs := rls.At(i).ScopeLogs().At(j).LogRecords()
				for k := 0; k < lrs.Len(); k++ {
					l := lrs.At(k)
					ks = append(ks, fmt.Sprintf("%d %d %q %x %x", uint64(l.Timestamp()), l.SeverityNumber(), l.SeverityText(), l.TraceID(), l.SpanID()))
				}
			}
		}
	default:
		rms := in.Metrics.ResourceMetrics()
		for i := 0; i < rms.Len(); i++ {
			for j := 0; j < rms.At(i).ScopeMetrics().Len(); j++ {
				ms := rms.At(i).ScopeMetrics().At(j).Metrics()
				for k := 0; k < ms.Len(); k++ {
					m := ms.At(k)
					ks = append(ks, fmt.Sprintf("%q %q %q %d", m.Name(), m.Unit(), m.Description(), m.Type()))
				}
			}
		}
	}
	sort.Strings(ks)
	return ks
}

// Panic describes a recovered panic.
type Panic struct {
	Value string
	Stack string
}

func (p *Panic) String() string {
	if p == nil {
		return ""
	}
	return p.Value + "\n" + p.Stack
}

func catch(f func()) (p *Panic) {
	defer func() {
		if r := recover(); r != nil {
			p = &Panic{Value: fmt.Sprint(r), Stack: trimStack(string(debug.Stack()))}
		}
	}()
	f()
	return nil
}

func trimStack(s string) string {
	lines := strings.Split(s, "\n")
	var keep []string
	for _, l := range lines {
		if strings.Contains(l, "/repo/") || strings.Contains(l, "otel-arrow") || strings.Contains(l, "arrow-go") {
			keep = append(keep, strings.TrimSpace(l))
		}
		if len(keep) >= 16 {
			break
		}
	}
	return strings.Join(keep, "\n")
}

// Encode runs the producer on one input, converting a panic into a value.
func Encode(p *arrow_record.Producer, in Input) (bar *colarspb.BatchArrowRecords, err error, pn *Panic) {
	pn = catch(func() {
		switch in.Signal {
		case Traces:
			bar, err = p.BatchArrowRecordsFromTraces(in.Traces)
		case Logs:
			bar, err = p.BatchArrowRecordsFromLogs(in.Logs)
		default:
			bar, err = p.BatchArrowRecordsFromMetrics(in.Metrics)
		}
	})
	return
}

// Decoded is the result of one consumer call.
type Decoded struct {
	Canon []string
	// Keys: one string per decoded item made of fields of the MAIN record only
	// (see Input.Keys)
	Keys  []string
	Items int
	Err   error
	Panic *Panic
}

// Decode runs the consumer on one batch, converting a panic into a value.
func Decode(c *arrow_record.Consumer, signal string, bar *colarspb.BatchArrowRecords) (d Decoded) {
	d.Panic = catch(func() {
		switch signal {
		case Traces:
			outs, err := c.TracesFrom(bar)
			d.Err = err
			for _, o := range outs {
				d.Canon = append(d.Canon, canon.Spans(o)...)
				d.Items += o.SpanCount()
				d.Keys = append(d.Keys, Input{Signal: Traces, Traces: o}.Keys()...)
			}
		case Logs:
			outs, err := c.LogsFrom(bar)
			d.Err = err
			for _, o := range outs {
				d.Canon = append(d.Canon, canon.Logs(o)...)
				d.Items += o.LogRecordCount()
				d.Keys = append(d.Keys, Input{Signal: Logs, Logs: o}.Keys()...)
			}
		default:
			outs, err := c.MetricsFrom(bar)
			d.Err = err
			for _, o := range outs {
				d.Canon = append(d.Canon, canon.Metrics(o)...)
				d.Items += o.MetricCount()
				d.Keys = append(d.Keys, Input{Signal: Metrics, Metrics: o}.Keys()...)
			}
		}
	})
	sort.Strings(d.Canon)
	sort.Strings(d.Keys)
	return
}

// Events counts producer observer callbacks. It is used for coverage labels
// and non-triviality rules, never as an oracle.
type Events struct {
	Counts map[string]int
	// MaxCard is the largest dictionary cardinality reported at an upgrade,
	// overflow or reset.
	MaxCard uint64
}

func NewEvents() *Events { return &Events{Counts: map[string]int{}} }

func (o *Events) OnRecord(arrow.Record, record_message.PayloadType) {}
func (o *Events) OnNewField(recordName string, fieldPath string)    { o.Counts["new_field"]++ }
func (o *Events) OnDictionaryUpgrade(recordName string, fieldPath string, prev, nw arrow.DataType, card, total uint64) {
	o.Counts["upgrade:"+prev.Name()+">"+nw.Name()]++
	if card > o.MaxCard {
		o.MaxCard = card
	}
}
func (o *Events) OnDictionaryOverflow(recordName string, fieldPath string, card, total uint64) {
	o.Counts["overflow"]++
	if card > o.MaxCard {
		o.MaxCard = card
	}
}
func (o *Events) OnSchemaUpdate(recordName string, old, new *arrow.Schema) {
	o.Counts["schema_update"]++
}
func (o *Events) OnDictionaryReset(recordName string, fieldPath string, indexType arrow.DataType, card, total uint64) {
	o.Counts["reset:"+indexType.Name()]++
	if card > o.MaxCard {
		o.MaxCard = card
	}
}
func (o *Events) OnMetadataUpdate(recordName, metadataKey string) {}

// Snapshot returns the sorted event kinds seen so far.
func (o *Events) Kinds() []string {
	ks := make([]string, 0, len(o.Counts))
	for k := range o.Counts {
		ks = append(ks, k)
	}
	sort.Strings(ks)
	return ks
}

// Total sums the counts of kinds with the prefix.
func (o *Events) Total(prefix string) int {
	n := 0
	for k, v := range o.Counts {
		if strings.HasPrefix(k, prefix) {
			n += v
		}
	}
	return n
}

// BatchResult is what happened to one batch of a stream run.
type BatchResult struct {
	Signal       string
	Items        int
	Want         []string
	BAR          *colarspb.BatchArrowRecords // deep copy, nil if encoding failed
	EncodeErr    error
	EncodePanic  *Panic
	InputMutated bool
	Decoded      Decoded
	// EventsBefore/After: observer totals around the encode call
	SchemaUpdates int
	NewEvents     []string
}

// StreamResult is the outcome of RunStream.
type StreamResult struct {
	Batches   []BatchResult
	Events    *Events
	CloseErr  error
	ClosePan  *Panic
	LeakBytes int
	Aborted   bool // stopped early after a producer panic or consumer failure
}

// RunConfig selects what RunStream does besides encoding.
type RunConfig struct {
	Decode           bool // decode every batch with a default consumer
	CheckedAllocator bool // give the producer a CheckedAllocator and report the balance after Close
	KeepBAR          bool // keep a deep copy of every BatchArrowRecords
	CheckImmutable   bool // compare the input's serialisation before/after encoding
	ConsumerOpts     []arrow_record.Option
	StopAtDecodeFail bool
	// AfterBatch, when set, is called after batch k has been encoded (and
	// decoded); the producer and the consumer stay open while it runs.
	AfterBatch func(k int)
}

// RunStream executes a stream case against the real producer and consumer.
func RunStream(c *StreamCase, rc RunConfig) (*StreamResult, error) {
	if len(c.Options.Stats) > 0 {
		// the statistics options print to standard output: keep the shard logs
		// small (single-goroutine checks only; C16 does not draw them)
		if devnull, err := os.OpenFile(os.DevNull, os.O_WRONLY, 0); err == nil {
			saved := os.Stdout
			os.Stdout = devnull
			defer func() { os.Stdout = saved; _ = devnull.Close() }()
		}
	}
	res := &StreamResult{Events: NewEvents()}
	opts := c.Options.Build()
	opts = append(opts, config.WithObserver(res.Events))
	var pool *memory.CheckedAllocator
	if rc.CheckedAllocator {
		pool = memory.NewCheckedAllocator(memory.NewGoAllocator())
		opts = append(opts, config.WithAllocator(pool))
	}
	p := arrow_record.NewProducerWithOptions(opts...)
	var cons *arrow_record.Consumer
	if rc.Decode {
		cons = arrow_record.NewConsumer(rc.ConsumerOpts...)
	}
	for _, b := range c.Batches {
		in, err := b.Decode()
		if err != nil {
			return nil, fmt.Errorf("case holds undecodable OTLP bytes: %w", err)
		}
		br := BatchResult{Signal: b.Signal, Items: in.Items(), Want: in.Canon()}
		before := map[string]int{}
		for k, v := range res.Events.Counts {
			before[k] = v
		}
		var protoBefore []byte
		if rc.CheckImmutable {
			protoBefore = in.Marshal()
		}
		bar, eerr, pn := Encode(p, in)
		br.EncodeErr, br.EncodePanic = eerr, pn
		for k, v := range res.Events.Counts {
			if v > before[k] {
				br.NewEvents = append(br.NewEvents, k)
			}
		}
		sort.Strings(br.NewEvents)
		br.SchemaUpdates = res.Events.Counts["schema_update"] - before["schema_update"]
		if rc.CheckImmutable {
			br.InputMutated = !bytes.Equal(in.Marshal(), protoBefore)
		}
		if pn != nil {
			res.Batches = append(res.Batches, br)
			res.Aborted = true
			break
		}
		if eerr == nil && bar != nil {
			if rc.KeepBAR {
				br.BAR = proto.Clone(bar).(*colarspb.BatchArrowRecords)
			}
			if cons != nil {
				br.Decoded = Decode(cons, b.Signal, bar)
			}
		}
		res.Batches = append(res.Batches, br)
		if cons != nil && rc.StopAtDecodeFail && (br.Decoded.Err != nil || br.Decoded.Panic != nil) {
			res.Aborted = true
			break
		}
		if rc.AfterBatch != nil {
			rc.AfterBatch(len(res.Batches) - 1)
		}
	}
	res.ClosePan = catch(func() { res.CloseErr = p.Close() })
	if cons != nil {
		_ = catch(func() { _ = cons.Close() })
	}
	if pool != nil {
		res.LeakBytes = pool.CurrentAlloc()
	}
	return res, nil
}

// newPair creates a producer with the options and a default consumer.
func newPair(o Options) (*arrow_record.Producer, *arrow_record.Consumer, func()) {
	p := arrow_record.NewProducerWithOptions(o.Build()...)
	c := arrow_record.NewConsumer()
	return p, c, func() {
		_ = catch(func() { _ = p.Close() })
		_ = catch(func() { _ = c.Close() })
	}
}
