// Package canon is the oracle of the round-trip properties: it maps a pdata
// value to a sorted multiset of strings, one per span / log record / metric.
// Each string carries the item's resource, its scope, every field of the Arrow
// data model (docs/data_model.md) and the sorted multisets of its children, so
// multiset equality of two canonical forms checks ownership and multiplicity.
//
// Exactly the documented normalisations are applied: container grouping and
// order are free; top-level attributes with an empty key or an unset value are
// dropped; an empty byte string nested inside a list or map is an unset value;
// -0.0 equals 0.0; all NaNs are equal.
//
// The package uses pdata only - no code of the repository under test.
package canon

import (
	"encoding/hex"
	"fmt"
	"math"
	"sort"
	"strconv"
	"strings"

	"go.opentelemetry.io/collector/pdata/pcommon"
	"go.opentelemetry.io/collector/pdata/plog"
	"go.opentelemetry.io/collector/pdata/pmetric"
	"go.opentelemetry.io/collector/pdata/ptrace"
)

// F64 renders a double with -0.0 == 0.0 and all NaNs equal.
func F64(d float64) string {
	if d == 0 {
		return "0"
	}
	if math.IsNaN(d) {
		return "NaN"
	}
	return strconv.FormatFloat(d, 'g', -1, 64)
}

// Value renders an AnyValue. nested is true inside a list or map value.
func Value(v pcommon.Value, nested bool) string {
	switch v.Type() {
	case pcommon.ValueTypeEmpty:
		return "E"
	case pcommon.ValueTypeStr:
		return "S" + strconv.Quote(v.Str())
	case pcommon.ValueTypeInt:
		return "I" + strconv.FormatInt(v.Int(), 10)
	case pcommon.ValueTypeDouble:
		return "D" + F64(v.Double())
	case pcommon.ValueTypeBool:
		if v.Bool() {
			return "Bt"
		}
		return "Bf"
	case pcommon.ValueTypeBytes:
		if nested && v.Bytes().Len() == 0 {
			return "E"
		}
		return "Y" + hex.EncodeToString(v.Bytes().AsRaw())
	case pcommon.ValueTypeSlice:
		var sb strings.Builder
		sb.WriteString("[")
		sl := v.Slice()
		for i := 0; i < sl.Len(); i++ {
			sb.WriteString(Value(sl.At(i), true))
			sb.WriteString(",")
		}
		sb.WriteString("]")
		return sb.String()
	case pcommon.ValueTypeMap:
		return Map(v.Map(), true)
	}
	return "?"
}

// Map renders an attribute map; at top level (nested == false) entries with an
// empty key or an unset value are dropped.
func Map(m pcommon.Map, nested bool) string {
	parts := make([]string, 0, m.Len())
	m.Range(func(k string, v pcommon.Value) bool {
		if !nested && (k == "" || v.Type() == pcommon.ValueTypeEmpty) {
			return true
		}
		parts = append(parts, strconv.Quote(k)+"="+Value(v, nested))
		return true
	})
	sort.Strings(parts)
	return "{" + strings.Join(parts, ";") + "}"
}

// Resource renders a resource with the schema URL of its container.
func Resource(r pcommon.Resource, url string) string {
	return fmt.Sprintf("R(%s,%d,%q)", Map(r.Attributes(), false), r.DroppedAttributesCount(), url)
}

// Scope renders a scope with the schema URL of its container.
func Scope(s pcommon.InstrumentationScope, url string) string {
	return fmt.Sprintf("S(%q,%q,%s,%d,%q)", s.Name(), s.Version(), Map(s.Attributes(), false), s.DroppedAttributesCount(), url)
}

func joinSorted(xs []string) string {
	sort.Strings(xs)
	return "[" + strings.Join(xs, " ") + "]"
}

// Span renders a span without its containers.
func Span(s ptrace.Span) string {
	evs := make([]string, 0, s.Events().Len())
	for e := 0; e < s.Events().Len(); e++ {
		ev := s.Events().At(e)
		evs = append(evs, fmt.Sprintf("E(%d,%q,%d,%s)", uint64(ev.Timestamp()), ev.Name(), ev.DroppedAttributesCount(), Map(ev.Attributes(), false)))
	}
	lks := make([]string, 0, s.Links().Len())
	for e := 0; e < s.Links().Len(); e++ {
		lk := s.Links().At(e)
		lks = append(lks, fmt.Sprintf("L(%s,%s,%q,%d,%s)", hex.EncodeToString(idb16(lk.TraceID())), hex.EncodeToString(idb8(lk.SpanID())), lk.TraceState().AsRaw(), lk.DroppedAttributesCount(), Map(lk.Attributes(), false)))
	}
	return fmt.Sprintf("SPAN(%s,%s,%q,%s,%q,%d,%d,%d,%d,%d,%d,%d,%q,%s,%s,%s)",
		hex.EncodeToString(idb16(s.TraceID())), hex.EncodeToString(idb8(s.SpanID())), s.TraceState().AsRaw(), hex.EncodeToString(idb8(s.ParentSpanID())), s.Name(), s.Kind(),
		uint64(s.StartTimestamp()), uint64(s.EndTimestamp()),
		s.DroppedAttributesCount(), s.DroppedEventsCount(), s.DroppedLinksCount(), s.Status().Code(), s.Status().Message(),
		Map(s.Attributes(), false), joinSorted(evs), joinSorted(lks))
}

func idb16(id pcommon.TraceID) []byte { return id[:] }
func idb8(id pcommon.SpanID) []byte   { return id[:] }

// Spans is the canonical multiset of a trace batch (sorted).
func Spans(td ptrace.Traces) []string {
	var out []string
	for i := 0; i < td.ResourceSpans().Len(); i++ {
		rs := td.ResourceSpans().At(i)
		rc := Resource(rs.Resource(), rs.SchemaUrl())
		for j := 0; j < rs.ScopeSpans().Len(); j++ {
			ss := rs.ScopeSpans().At(j)
			sc := Scope(ss.Scope(), ss.SchemaUrl())
			for k := 0; k < ss.Spans().Len(); k++ {
				out = append(out, rc+" "+sc+" "+Span(ss.Spans().At(k)))
			}
		}
	}
	sort.Strings(out)
	return out
}

// LogRecord renders a log record without its containers.
func LogRecord(l plog.LogRecord) string {
	return fmt.Sprintf("LOG(%d,%d,%s,%s,%d,%q,%s,%s,%d,%d)", uint64(l.Timestamp()), uint64(l.ObservedTimestamp()),
		hex.EncodeToString(idb16(l.TraceID())), hex.EncodeToString(idb8(l.SpanID())), l.SeverityNumber(), l.SeverityText(),
		Value(l.Body(), false), Map(l.Attributes(), false), l.DroppedAttributesCount(), uint32(l.Flags()))
}

// Logs is the canonical multiset of a log batch (sorted).
func Logs(ld plog.Logs) []string {
	var out []string
	for i := 0; i < ld.ResourceLogs().Len(); i++ {
		rl := ld.ResourceLogs().At(i)
		rc := Resource(rl.Resource(), rl.SchemaUrl())
		for j := 0; j < rl.ScopeLogs().Len(); j++ {
			sl := rl.ScopeLogs().At(j)
			sc := Scope(sl.Scope(), sl.SchemaUrl())
			for k := 0; k < sl.LogRecords().Len(); k++ {
				out = append(out, rc+" "+sc+" "+LogRecord(sl.LogRecords().At(k)))
			}
		}
	}
	sort.Strings(out)
	return out
}

func exemplars(es pmetric.ExemplarSlice) string {
	out := make([]string, 0, es.Len())
	for i := 0; i < es.Len(); i++ {
		e := es.At(i)
		v := "none"
		switch e.ValueType() {
		case pmetric.ExemplarValueTypeInt:
			v = "i" + strconv.FormatInt(e.IntValue(), 10)
		case pmetric.ExemplarValueTypeDouble:
			v = "d" + F64(e.DoubleValue())
		}
		out = append(out, fmt.Sprintf("X(%d,%s,%s,%s,%s)", uint64(e.Timestamp()), v, hex.EncodeToString(idb16(e.TraceID())), hex.EncodeToString(idb8(e.SpanID())), Map(e.FilteredAttributes(), false)))
	}
	return joinSorted(out)
}

func numberPoints(dps pmetric.NumberDataPointSlice) string {
	out := make([]string, 0, dps.Len())
	for i := 0; i < dps.Len(); i++ {
		dp := dps.At(i)
		v := "none"
		switch dp.ValueType() {
		case pmetric.NumberDataPointValueTypeInt:
			v = "i" + strconv.FormatInt(dp.IntValue(), 10)
		case pmetric.NumberDataPointValueTypeDouble:
			v = "d" + F64(dp.DoubleValue())
		}
		out = append(out, fmt.Sprintf("N(%d,%d,%s,%d,%s,%s)", uint64(dp.StartTimestamp()), uint64(dp.Timestamp()), v, uint32(dp.Flags()), Map(dp.Attributes(), false), exemplars(dp.Exemplars())))
	}
	return joinSorted(out)
}

func optF(has bool, v float64) string {
	if !has {
		return "-"
	}
	return F64(v)
}

func f64s(xs []float64) string {
	out := make([]string, len(xs))
	for i, x := range xs {
		out[i] = F64(x)
	}
	return "<" + strings.Join(out, ",") + ">"
}

func u64s(xs []uint64) string {
	out := make([]string, len(xs))
	for i, x := range xs {
		out[i] = strconv.FormatUint(x, 10)
	}
	return "<" + strings.Join(out, ",") + ">"
}

// Metric renders a metric (descriptor and the multiset of its points).
func Metric(m pmetric.Metric) string {
	body := ""
	switch m.Type() {
	case pmetric.MetricTypeGauge:
		body = "GAUGE" + numberPoints(m.Gauge().DataPoints())
	case pmetric.MetricTypeSum:
		body = fmt.Sprintf("SUM(%d,%v)%s", m.Sum().AggregationTemporality(), m.Sum().IsMonotonic(), numberPoints(m.Sum().DataPoints()))
	case pmetric.MetricTypeHistogram:
		var dps []string
		for x := 0; x < m.Histogram().DataPoints().Len(); x++ {
			dp := m.Histogram().DataPoints().At(x)
			dps = append(dps, fmt.Sprintf("H(%d,%d,%d,%s,%s,%s,%s,%s,%d,%s,%s)", uint64(dp.StartTimestamp()), uint64(dp.Timestamp()), dp.Count(),
				optF(dp.HasSum(), dp.Sum()), optF(dp.HasMin(), dp.Min()), optF(dp.HasMax(), dp.Max()),
				u64s(dp.BucketCounts().AsRaw()), f64s(dp.ExplicitBounds().AsRaw()), uint32(dp.Flags()), Map(dp.Attributes(), false), exemplars(dp.Exemplars())))
		}
		body = fmt.Sprintf("HIST(%d)%s", m.Histogram().AggregationTemporality(), joinSorted(dps))
	case pmetric.MetricTypeExponentialHistogram:
		var dps []string
		for x := 0; x < m.ExponentialHistogram().DataPoints().Len(); x++ {
			dp := m.ExponentialHistogram().DataPoints().At(x)
			dps = append(dps, fmt.Sprintf("EH(%d,%d,%d,%d,%d,%s,%s,%s,%d,%s,%d,%s,%d,%s,%s)", uint64(dp.StartTimestamp()), uint64(dp.Timestamp()), dp.Count(), dp.Scale(), dp.ZeroCount(),
				optF(dp.HasSum(), dp.Sum()), optF(dp.HasMin(), dp.Min()), optF(dp.HasMax(), dp.Max()),
				dp.Positive().Offset(), u64s(dp.Positive().BucketCounts().AsRaw()), dp.Negative().Offset(), u64s(dp.Negative().BucketCounts().AsRaw()),
				uint32(dp.Flags()), Map(dp.Attributes(), false), exemplars(dp.Exemplars())))
		}
		body = fmt.Sprintf("EHIST(%d)%s", m.ExponentialHistogram().AggregationTemporality(), joinSorted(dps))
	case pmetric.MetricTypeSummary:
		var dps []string
		for x := 0; x < m.Summary().DataPoints().Len(); x++ {
			dp := m.Summary().DataPoints().At(x)
			qs := make([]string, 0, dp.QuantileValues().Len())
			for q := 0; q < dp.QuantileValues().Len(); q++ {
				qs = append(qs, F64(dp.QuantileValues().At(q).Quantile())+":"+F64(dp.QuantileValues().At(q).Value()))
			}
			// the quantile list is a list field of the point; its order is kept
			dps = append(dps, fmt.Sprintf("SU(%d,%d,%d,%s,<%s>,%d,%s)", uint64(dp.StartTimestamp()), uint64(dp.Timestamp()), dp.Count(), F64(dp.Sum()), strings.Join(qs, ","), uint32(dp.Flags()), Map(dp.Attributes(), false)))
		}
		body = "SUMMARY" + joinSorted(dps)
	default:
		body = "EMPTY"
	}
	return fmt.Sprintf("M(%q,%q,%q) %s", m.Name(), m.Description(), m.Unit(), body)
}

// Metrics is the canonical multiset of a metric batch (sorted).
func Metrics(md pmetric.Metrics) []string {
	var out []string
	for i := 0; i < md.ResourceMetrics().Len(); i++ {
		rm := md.ResourceMetrics().At(i)
		rc := Resource(rm.Resource(), rm.SchemaUrl())
		for j := 0; j < rm.ScopeMetrics().Len(); j++ {
			sm := rm.ScopeMetrics().At(j)
			sc := Scope(sm.Scope(), sm.SchemaUrl())
			for k := 0; k < sm.Metrics().Len(); k++ {
				out = append(out, rc+" "+sc+" "+Metric(sm.Metrics().At(k)))
			}
		}
	}
	sort.Strings(out)
	return out
}

// Diff compares two sorted canonical multisets and describes the first
// difference ("" when equal).
func Diff(want, got []string) string {
	if len(want) != len(got) {
		// find the first item present in one but not the other
		d := firstDiff(want, got)
		return fmt.Sprintf("item count: encoded %d, decoded %d; %s", len(want), len(got), d)
	}
	for i := range want {
		if want[i] != got[i] {
			return firstDiff(want, got)
		}
	}
	return ""
}

func firstDiff(want, got []string) string {
	i, j := 0, 0
	for i < len(want) && j < len(got) {
		switch {
		case want[i] == got[j]:
			i++
			j++
		case want[i] < got[j]:
			// want[i] missing from got; is got[j] the altered version?
			return fmt.Sprintf("encoded item not decoded:\n  want %s\n  got  %s", want[i], got[j])
		default:
			return fmt.Sprintf("decoded item never encoded:\n  got  %s\n  want %s", got[j], want[i])
		}
	}
	if i < len(want) {
		return "encoded item not decoded:\n  want " + want[i]
	}
	if j < len(got) {
		return "decoded item never encoded:\n  got  " + got[j]
	}
	return ""
}
