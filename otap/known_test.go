package otap

import (
	"fmt"
	"strings"
	"testing"

	"go.opentelemetry.io/collector/pdata/plog"
	"go.opentelemetry.io/collector/pdata/ptrace"
	"google.golang.org/protobuf/proto"

	colarspb "github.com/open-telemetry/otel-arrow/api/experimental/arrow/v1"
	"github.com/open-telemetry/otel-arrow/pkg/otel/arrow_record"
)

// nulResetHistory is the specific history of the known finding
// dict-reset-trailing-nul (known_findings.txt, DESIGN.md D12): with the uint8
// dictionary limit and a reset threshold above 1, batch 2 makes the
// SPAN_ATTRS.str dictionary outgrow the limit, the dictionary is RESET (same
// schema, same IPC writer) and the rebuilt record carries a fresh dictionary
// of the same length as the one transmitted with batch 1 whose entries differ
// from it only by a trailing NUL. arrow-go's IPC writer compares dictionaries
// with array.ApproxEqual, which strips trailing NULs, decides that nothing
// changed and does not transmit the new dictionary.
func nulResetHistory() *StreamCase {
	thr := 5.0
	c := &StreamCase{Options: Options{Dict: "u8", ResetThreshold: &thr}}
	for b := 0; b < 2; b++ {
		td := ptrace.NewTraces()
		ss := td.ResourceSpans().AppendEmpty().ScopeSpans().AppendEmpty()
		for i := 0; i < 200; i++ {
			sp := ss.Spans().AppendEmpty()
			sp.SetName("s")
			v := fmt.Sprintf("value-%03d", i)
			if b == 1 {
				v += "\x00"
			}
			sp.Attributes().PutStr("k", v)
		}
		c.Batches = append(c.Batches, TracesBatch(td))
	}
	return c
}

// nulSharedWriterHistory is the specific history of the known finding
// shared-writer-trailing-nul (D12 (a)): the RESOURCE_ATTRS records of traces
// and logs come from different builders but go through ONE IPC writer (same
// fields, same metadata). The traces batch transmits the key dictionary
// ["k\x00"], the logs batch brings the dictionary ["k"]: same length, equal
// up to trailing NULs for array.ApproxEqual, so the writer does not transmit
// it and the log's resource attribute decodes under the key "k\x00".
func nulSharedWriterHistory() *StreamCase {
	c := &StreamCase{}
	td := ptrace.NewTraces()
	rs := td.ResourceSpans().AppendEmpty()
	rs.Resource().Attributes().PutStr("k\x00", "v")
	rs.ScopeSpans().AppendEmpty().Spans().AppendEmpty().SetName("s")
	c.Batches = append(c.Batches, TracesBatch(td))
	ld := plog.NewLogs()
	rl := ld.ResourceLogs().AppendEmpty()
	rl.Resource().Attributes().PutStr("k", "v")
	rl.ScopeLogs().AppendEmpty().LogRecords().AppendEmpty().Body().SetStr("b")
	c.Batches = append(c.Batches, LogsBatch(ld))
	return c
}

// TestKnownC04 probes the listed known findings with their specific histories.
func TestKnownC04(t *testing.T) {
	{
		res, err := RunStream(nulSharedWriterHistory(), RunConfig{Decode: true, StopAtDecodeFail: true})
		if err != nil {
			fmt.Printf("KNOWN-NOVERDICT key=shared-writer-trailing-nul %v\n", err)
		} else if msg := roundTripVerdict(res, ""); msg != "" && strings.Contains(msg, "batch 1 (logs)") {
			fmt.Printf("KNOWN-REPRODUCED key=shared-writer-trailing-nul: %s\n", kitTrunc(msg))
		} else {
			fmt.Printf("KNOWN-GONE key=shared-writer-trailing-nul (verdict %q)\n", kitTrunc(msg))
		}
	}
	c := nulResetHistory()
	res, err := RunStream(c, RunConfig{Decode: true, StopAtDecodeFail: true})
	if err != nil {
		fmt.Printf("KNOWN-NOVERDICT key=dict-reset-trailing-nul %v\n", err)
		return
	}
	msg := roundTripVerdict(res, "")
	resets := res.Events.Total("reset")
	if msg != "" && resets > 0 {
		fmt.Printf("KNOWN-REPRODUCED key=dict-reset-trailing-nul resets=%d: %s\n", resets, kitTrunc(msg))
	} else {
		fmt.Printf("KNOWN-GONE key=dict-reset-trailing-nul (resets=%d, verdict %q)\n", resets, kitTrunc(msg))
	}
}

func kitTrunc(s string) string {
	if len(s) > 600 {
		return s[:600] + "..."
	}
	return s
}

// TestKnownC02 probes the known finding large-value-dictionary: 60 batches of
// 1,000 log records whose bodies are distinct 2 KiB strings, default producer,
// default consumer. The body dictionary (16-bit index, up to 65,535 entries)
// keeps growing in the consumer's IPC reader; appending a delta needs the old
// and the new copy, and the default 70 MiB memory limit is reached long before
// the dictionary overflows to a plain column.
func TestKnownC02(t *testing.T) {
	p, cons, closeAll := newPair(Options{})
	defer closeAll()
	n := 0
	for b := 0; b < 60; b++ {
		ld := plog.NewLogs()
		sl := ld.ResourceLogs().AppendEmpty().ScopeLogs().AppendEmpty()
		for i := 0; i < 1000; i++ {
			n++
			sl.LogRecords().AppendEmpty().Body().SetStr(fmt.Sprintf("%08d", n) + strings.Repeat("b", 2040))
		}
		bar, err, pn := Encode(p, Input{Signal: Logs, Logs: ld})
		if err != nil || pn != nil {
			fmt.Printf("KNOWN-NOVERDICT key=large-value-dictionary producer: %v %v\n", err, pn)
			return
		}
		var derr error
		items := 0
		dpn := catch(func() {
			outs, err := cons.LogsFrom(bar)
			derr = err
			for _, o := range outs {
				items += o.LogRecordCount()
			}
		})
		if dpn != nil {
			fmt.Printf("KNOWN-NOVERDICT key=large-value-dictionary consumer panicked: %s\n", dpn)
			return
		}
		if derr != nil {
			fmt.Printf("KNOWN-REPRODUCED key=large-value-dictionary batch %d of 60 refused by a default consumer: %s\n", b, kitTrunc(derr.Error()))
			return
		}
		if items != 1000 {
			fmt.Printf("KNOWN-NOVERDICT key=large-value-dictionary batch %d: %d items\n", b, items)
			return
		}
	}
	fmt.Printf("KNOWN-GONE key=large-value-dictionary (all 60 batches decoded)\n")
}

// TestKnownC14 probes the known finding continue-after-refusal: a consumer
// that is used again after it refused a batch. The payloads behind the refused
// one were never handed to their readers, so those sub-streams miss messages;
// when a later batch re-opens the refused sub-stream (new schema id of the
// main record) the following batches are decoded against stale dictionaries.
// History: batch 0 small, batch 1 with a large SPANS record (refused at
// 8 KiB in its first payload), batches 2-3 small with trace_state (SPANS gets a
// new schema id).
func TestKnownC14(t *testing.T) {
	mk := func(first, spans, nameLen int, ts bool) ptrace.Traces {
		td := ptrace.NewTraces()
		rs := td.ResourceSpans().AppendEmpty()
		rs.SetSchemaUrl("schema")
		ss := rs.ScopeSpans().AppendEmpty().Spans()
		for i := 0; i < spans; i++ {
			sp := ss.AppendEmpty()
			sp.SetName(strings.Repeat("n", nameLen) + fmt.Sprintf("span_%d", first+i))
			if ts {
				sp.TraceState().FromRaw("k=v")
			}
			sp.Attributes().PutStr(fmt.Sprintf("key_%d", first+i), fmt.Sprintf("value_%d", first+i))
		}
		return td
	}
	c := &StreamCase{Batches: []Batch{TracesBatch(mk(0, 4, 0, false)), TracesBatch(mk(4, 60, 400, false)), TracesBatch(mk(64, 4, 0, true)), TracesBatch(mk(68, 4, 0, true))}}
	batches, err := encodeAll(c)
	if err != nil || len(batches) != 4 {
		fmt.Printf("KNOWN-NOVERDICT key=continue-after-refusal producer: %v (%d batches)\n", err, len(batches))
		return
	}
	for _, limit := range []uint64{8 << 10, 12 << 10, 16 << 10, 24 << 10} {
		cons := arrow_record.NewConsumer(arrow_record.WithMemoryLimit(limit))
		refused := false
		for i, b := range batches {
			d := Decode(cons, b.signal, proto.Clone(b.bar).(*colarspb.BatchArrowRecords))
			if d.Panic != nil && refused {
				fmt.Printf("KNOWN-REPRODUCED key=continue-after-refusal limit %d: batch %d panics after an earlier batch was refused: %s\n", limit, i, kitTrunc(d.Panic.Value))
				_ = catch(func() { _ = cons.Close() })
				return
			}
			if d.Err != nil {
				refused = true
			}
		}
		_ = catch(func() { _ = cons.Close() })
	}
	fmt.Printf("KNOWN-GONE key=continue-after-refusal (no panic after a refusal under 8-24 KiB)\n")
}
