package otap

import (
	"fmt"
	"testing"

	"pgregory.net/rapid"

	colarspb "github.com/open-telemetry/otel-arrow/api/experimental/arrow/v1"
	"github.com/open-telemetry/otel-arrow/pkg/otel/arrow_record"

	"verif/kit"
	"verif/otap/canon"
)

// Long hauls: "all finite sequences of batches on one stream" includes
// streams whose total volume is many times what a consumer may hold (its Arrow
// memory limit is 70 MiB by default). The batches of a haul repeat the same
// ids, so after the first batch the dictionaries are stationary and the memory
// needed per batch does not grow: a default consumer must keep decoding. The
// stream goes on until EVERY payload type of substantial size has carried more
// than haulVolume bytes (the producer runs without compression, so wire bytes approximate
// record bytes) - whatever a consumer forgets to give back per batch, main
// record or related record, adds up to more than its limit.
const haulVolume = 75 << 20

const haulMaxBatches = 250

// The main record is always waited for; a related payload type only when its
// records have at least this size (smaller ones - the resource and scope
// attributes of a one-resource batch, index-only event records - could not
// add up to the limit within the haul).
const haulMinRecord = 1 << 20

func haulSynth(n int, wide bool) string {
	if wide {
		return fmt.Sprintf("haulwide/%d", n)
	}
	return fmt.Sprintf("haul/%d", n)
}

// runHaul returns the failure message (or "") and the number of batches sent.
func runHaul(signal string, o Options, n int, wide bool) (string, int, map[string]int) {
	p := arrow_record.NewProducerWithOptions(o.Build()...)
	cons := arrow_record.NewConsumer()
	defer func() {
		_ = catch(func() { _ = p.Close() })
		_ = catch(func() { _ = cons.Close() })
	}()
	in := haulInput(signal, n, wide)
	want := in.Canon()
	vol := map[colarspb.ArrowPayloadType]int{}
	big := map[colarspb.ArrowPayloadType]bool{} // payload types that can add up to the limit within the haul
	volumes := func() map[string]int {
		out := map[string]int{}
		for k, v := range vol {
			out[k.String()] = v
		}
		return out
	}
	for b := 0; b < haulMaxBatches; b++ {
		bar, err, pn := Encode(p, in)
		if pn != nil {
			return fmt.Sprintf("batch %d (%s): producer panicked: %s", b, signal, pn), b, volumes()
		}
		if err != nil {
			return fmt.Sprintf("batch %d (%s): producer refused an in-domain batch: %v", b, signal, err), b, volumes()
		}
		for _, pl := range bar.ArrowPayloads {
			vol[pl.Type] += len(pl.Record)
		}
		if b == 1 {
			// sizes of the second batch: the first one also carries the schemas and the dictionaries
			for pi, pl := range bar.ArrowPayloads {
				if pi == 0 || len(pl.Record) >= haulMinRecord {
					big[pl.Type] = true
				}
			}
		}
		done := b >= 1
		for ty := range big {
			if vol[ty] < haulVolume {
				done = false
			}
		}
		last := done || b == haulMaxBatches-1
		// the full comparison on the first, every 16th and the last batch; the
		// item count on all of them
		if b == 0 || b%16 == 15 || last {
			d := Decode(cons, signal, bar)
			if d.Panic != nil {
				return fmt.Sprintf("batch %d (%s): consumer panicked on a valid stream: %s", b, signal, d.Panic), b, volumes()
			}
			if d.Err != nil {
				return fmt.Sprintf("batch %d (%s) of a stream repeating one batch of %d items: consumer refused a valid batch: %v", b, signal, n, d.Err), b, volumes()
			}
			if diff := canon.Diff(want, d.Canon); diff != "" {
				return fmt.Sprintf("batch %d (%s): decoded telemetry differs from encoded: %s", b, signal, diff), b, volumes()
			}
		} else {
			items, derr, dpn := 0, error(nil), (*Panic)(nil)
			dpn = catch(func() {
				switch signal {
				case Traces:
					outs, err := cons.TracesFrom(bar)
					derr = err
					for _, x := range outs {
						items += x.SpanCount()
					}
				case Logs:
					outs, err := cons.LogsFrom(bar)
					derr = err
					for _, x := range outs {
						items += x.LogRecordCount()
					}
				default:
					outs, err := cons.MetricsFrom(bar)
					derr = err
					for _, x := range outs {
						items += x.MetricCount()
					}
				}
			})
			if dpn != nil {
				return fmt.Sprintf("batch %d (%s): consumer panicked on a valid stream: %s", b, signal, dpn), b, volumes()
			}
			if derr != nil {
				return fmt.Sprintf("batch %d (%s) of a stream repeating one batch of %d items: consumer refused a valid batch: %v", b, signal, n, derr), b, volumes()
			}
			if items != n {
				return fmt.Sprintf("batch %d (%s): %d items decoded, %d encoded", b, signal, items, n), b, volumes()
			}
		}
		if last {
			return "", b + 1, volumes()
		}
	}
	return "", haulMaxBatches, volumes()
}

func haulProperty(id, signal string) func(t *rapid.T) {
	rec := kit.Get(id)
	return func(t *rapid.T) {
		n := rapid.SampledFrom([]int{60000, 60000, 40000}).Draw(t, "hauln")
		wide := rapid.Bool().Draw(t, "haulwide")
		noz := false
		o := Options{Zstd: &noz}
		if rapid.Bool().Draw(t, "hauldict") {
			o.Dict = rapid.SampledFrom([]string{"u32", "none", "u8"}).Draw(t, "hauldictv")
		}
		msg, batches, vols := runHaul(signal, o, n, wide)
		minv := -1
		for _, v := range vols {
			if minv < 0 || v < minv {
				minv = v
			}
		}
		rec.Case(true, fmt.Sprintf("haul/%s/%d/%v/%s", signal, n, wide, o.String()), []string{"long_haul_stream", "haul_batches=" + bucket(batches)}, func() any {
			return map[string]any{"long_haul": true, "signal": signal, "items_per_batch": n, "batches": batches, "options": o.String(), "bytes_per_payload_type": vols}
		})
		if msg != "" {
			// replay file: the same stream as an ordinary case of synthetic batches
			c := &StreamCase{Options: o}
			nb := batches + 1
			for b := 0; b < nb; b++ {
				c.Batches = append(c.Batches, Batch{Signal: signal, Synth: haulSynth(n, wide)})
			}
			rec.Fail(t, c, "%s", msg)
		}
	}
}

func TestC01Haul(t *testing.T) { rapid.Check(t, haulProperty("C01", Traces)) }
func TestC02Haul(t *testing.T) { rapid.Check(t, haulProperty("C02", Logs)) }
func TestC03Haul(t *testing.T) { rapid.Check(t, haulProperty("C03", Metrics)) }
