package otap

import (
	"fmt"
	"os"
	"strings"
	"testing"

	"pgregory.net/rapid"

	"verif/kit"
	"verif/otap/gen"
)

// Coverage-guided fuzzing (thorough tier only; Go's native fuzzer cannot be
// pinned to a seed, its reproducible unit is the saved case).
//
// FuzzOTLP explores an input space the rapid generators do not reach by
// construction: *whatever pdata parses* out of mutated OTLP protobuf bytes
// (unknown enum numbers, fields the generators never combine, odd lengths).
// The fuzz arguments are decoded into structured arguments - a producer
// option set and up to three batches of one signal - so the fuzzer reaches the
// encoder logic instead of dying in input validation, and the semantic oracle
// of the property named by VERIF_PROPERTY runs inside the target:
//
//	C08      no producer panic (no domain restriction)
//	C01-C03  default options, round trip to the canonical multiset (inputs
//	         outside the stated domain are only held to "no panic")
//	C04      drawn options, round trip
//	C15      input bytes unchanged, allocator balance zero after Close
//
// A failing input is written as an ordinary StreamCase replay file, so it is
// re-executed through the same verdict functions as every other saved case.

var fuzzDicts = []string{"", "none", "u8", "u16", "u32", "u8"}
var fuzzThresholds = []float64{-1, 0, 0.1, 0.3, 0.9, 1, 5}

func fuzzOptions(sel uint16) Options {
	var o Options
	x := int(sel) / 3
	o.Dict = fuzzDicts[x%len(fuzzDicts)]
	x /= len(fuzzDicts)
	if th := fuzzThresholds[x%len(fuzzThresholds)]; th >= 0 {
		o.ResetThreshold = &th
	}
	x /= len(fuzzThresholds)
	if v := x % 5; v < 4 {
		o.OrderAttrs16By = &v
	}
	x /= 5
	if v := x % 6; v < 5 {
		o.OrderAttrs32By = &v
	}
	x /= 6
	if v := x % 8; v < 7 {
		o.OrderSpanBy = &v
	}
	return o
}

var fuzzSignals = []string{Traces, Logs, Metrics}

// fuzzSeeds adds small valid histories from the harness generators (a fixed
// list of rapid example numbers) and the saved regression inputs.
func fuzzSeeds(f *testing.F, signals []string) {
	for si, sig := range fuzzSignals {
		use := false
		for _, s := range signals {
			use = use || s == sig
		}
		if !use {
			continue
		}
		sig := sig
		g := rapid.Custom(func(t *rapid.T) *StreamCase {
			c, _ := genHistory(t, sig, gen.InDomain(), false)
			return c
		})
		for ex := 1; ex <= 24; ex++ {
			c := g.Example(ex)
			var bs [3][]byte
			n := 0
			for _, b := range c.Batches {
				if n < 3 && len(b.Proto) > 0 && len(b.Proto) < 64<<10 {
					bs[n] = b.Proto
					n++
				}
			}
			f.Add(uint16(si+3*ex*37), bs[0], bs[1], bs[2])
		}
		f.Add(uint16(si), []byte{}, []byte{}, []byte{})
	}
}

func FuzzOTLP(f *testing.F) {
	pid := os.Getenv("VERIF_PROPERTY")
	if pid == "" {
		pid = "C08"
	}
	signals := fuzzSignals
	switch pid {
	case "C01":
		signals = []string{Traces}
	case "C02":
		signals = []string{Logs}
	case "C03":
		signals = []string{Metrics}
	}
	fuzzSeeds(f, signals)
	rec := kit.Get(pid)
	f.Fuzz(func(t *testing.T, sel uint16, b1, b2, b3 []byte) {
		sig := signals[int(sel%3)%len(signals)]
		c := &StreamCase{}
		switch pid {
		case "C01", "C02", "C03":
		default:
			c.Options = fuzzOptions(sel)
		}
		inDomain := true
		var inShapes []string
		trailingNul := false
		dup := 0
		for _, raw := range [][]byte{b1, b2, b3} {
			if len(raw) == 0 || len(raw) > 100000 {
				// (an element takes at least two bytes: at most 50,000 of anything,
				// below the 65,535 id width, so a refusal is never legitimate)
				continue
			}
			in, err := Batch{Signal: sig, Proto: raw}.Decode()
			if err != nil {
				continue
			}
			d := domainOf(in) // removes duplicate attribute keys in place
			if d.TooDeep {
				return // (values nested more than 64 levels deep are left to the rapid generators of C08)
			}
			inDomain = inDomain && d.In()
			trailingNul = trailingNul || d.TrailingNul
			dup += d.DupKeys
			c.Batches = append(c.Batches, Batch{Signal: sig, Proto: in.Marshal()})
			inShapes = append(inShapes, in.Shape())
		}
		if len(c.Batches) == 0 {
			return
		}
		labels := []string{"fuzz:signal=" + sig, fmt.Sprintf("fuzz:batches=%d", len(c.Batches))}
		if !inDomain {
			labels = append(labels, "fuzz:outside_roundtrip_domain")
		}
		if dup > 0 {
			labels = append(labels, "fuzz:duplicate_keys_removed")
		}
		roundTrip := inDomain && (pid == "C01" || pid == "C02" || pid == "C03" || pid == "C04")
		if pid == "C04" && trailingNul && c.Options.Dict == "u8" {
			// precondition of known finding dict-reset-trailing-nul (a reset is
			// only within reach of a fuzz input under the 8-bit limit)
			rec.Excluded("dict-reset-trailing-nul")
			roundTrip = false
		}
		res, err := RunStream(c, RunConfig{Decode: roundTrip, StopAtDecodeFail: true, CheckedAllocator: pid == "C15", CheckImmutable: pid == "C15"})
		if err != nil {
			t.Fatalf("harness: %v", err)
		}
		items := 0
		var shapes []string
		for _, b := range res.Batches {
			items += b.Items
			shapes = append(shapes, b.Signal[:1]+bucket(b.Items)+strings.Join(b.NewEvents, "+"))
		}
		for _, l := range transitionLabels(res) {
			labels = append(labels, l)
		}
		rec.Case(items > 0, "fuzz#"+c.Options.String()+"#"+strings.Join(shapes, "|")+"#"+strings.Join(inShapes, "|"), labels, sampleOf(c, res))
		msg := ""
		switch {
		case pid == "C08":
			msg = noPanicVerdict(res)
		case roundTrip:
			msg = roundTripVerdict(res, "")
		case pid == "C15":
			msg = cleanVerdict(res)
		}
		if msg != "" {
			rec.Fail(t, c, "fuzzed input, options %s: %s", c.Options, msg)
		}
	})
}

// runRapid is rapid.Check, except inside FuzzRapid, where the property is fed
// from the fuzzer's bytes instead.
var runRapid = func(t *testing.T, prop func(*rapid.T)) { rapid.Check(t, prop) }

var fuzzableTests = map[string]func(*testing.T){"C12": TestC12, "C13": TestC13, "C14": TestC14}

// FuzzRapid drives the rapid generator and oracle of Test<VERIF_PROPERTY> from
// the bytes of Go's coverage-guided fuzzer (rapid.MakeFuzz): same domain, same
// oracle, but the search is steered by branch coverage of the encoder.
func FuzzRapid(f *testing.F) {
	id := os.Getenv("VERIF_PROPERTY")
	test, ok := fuzzableTests[id]
	if !ok {
		f.Skip("VERIF_PROPERTY names no fuzzable rapid property")
	}
	for i := 0; i < 32; i++ {
		f.Add(kit.SeedBytes(fmt.Sprintf("%s/%d", id, i), 16384))
	}
	fuzzNoExpensive = true
	f.Fuzz(func(t *testing.T, data []byte) {
		runRapid = func(_ *testing.T, prop func(*rapid.T)) { rapid.MakeFuzz(prop)(t, data) }
		test(t)
	})
}
