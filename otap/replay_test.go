package otap

import (
	"encoding/json"
	"fmt"
	"os"
	"sort"
	"testing"

	"verif/kit"
)

// TestReplay re-executes the saved stream cases named by VERIF_REPLAY (a file
// or a directory) through the oracle of their property, without rapid.
// VERIF_PROPERTY restricts it to one property.
func TestReplay(t *testing.T) {
	only := os.Getenv("VERIF_PROPERTY")
	for id, f := range otherReplays {
		if only == "" || only == id {
			f(t)
		}
	}
	var ids []string
	for id := range streamVerdicts {
		if only == "" || only == id {
			ids = append(ids, id)
		}
	}
	sort.Strings(ids)
	for _, id := range ids {
		cases, err := kit.LoadReplays(id)
		if err != nil {
			t.Fatalf("loading replays: %v", err)
		}
		var files []string
		for f := range cases {
			files = append(files, f)
		}
		sort.Strings(files)
		for _, path := range files {
			fmt.Printf("REPLAY-START property=%s file=%s\n", id, path)
			var c StreamCase
			if err := json.Unmarshal(cases[path], &c); err != nil {
				t.Fatalf("%s: %v", path, err)
			}
			if msg := streamVerdicts[id](&c); msg != "" {
				fmt.Printf("REPLAY-FAIL property=%s file=%s\n%s\n", id, path, msg)
				t.Errorf("%s: %s", path, msg)
			} else {
				fmt.Printf("REPLAY-OK property=%s file=%s\n", id, path)
			}
		}
	}
}

// otherReplays holds the replay functions of properties whose cases are not
// plain StreamCases.
var otherReplays = map[string]func(t *testing.T){}

// TestMinimize structurally shrinks the failing case in the file VERIF_REPLAY
// and rewrites the file (used by the driver after rapid's own shrinking).
func TestMinimize(t *testing.T) {
	p := os.Getenv("VERIF_REPLAY")
	if p == "" {
		t.Skip("VERIF_REPLAY not set")
	}
	b, err := os.ReadFile(p)
	if err != nil {
		t.Fatal(err)
	}
	var rp kit.Replay
	if err := json.Unmarshal(b, &rp); err != nil {
		t.Fatal(err)
	}
	verdict := streamVerdicts[rp.Property]
	if verdict == nil {
		t.Skipf("no stream verdict for %s", rp.Property)
	}
	var c StreamCase
	if err := json.Unmarshal(rp.Case, &c); err != nil {
		t.Skipf("not a stream case: %v", err)
	}
	if verdict(&c) == "" {
		fmt.Printf("MINIMIZE: case does not fail deterministically; left as is\n")
		return
	}
	min := Minimize(&c, func(x *StreamCase) bool { return verdict(x) != "" }, 3000)
	msg := verdict(min)
	if msg == "" {
		return
	}
	kit.SaveReplay(p, rp.Property, msg, min)
	n := 0
	for _, bt := range min.Batches {
		n += len(bt.Proto)
	}
	fmt.Printf("MINIMIZE: %d batches, %d OTLP bytes\n", len(min.Batches), n)
}
