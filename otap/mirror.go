package otap

import (
	"bytes"
	"fmt"
	"sort"

	"github.com/apache/arrow-go/v18/arrow"
	"github.com/apache/arrow-go/v18/arrow/array"
	"github.com/apache/arrow-go/v18/arrow/ipc"
	"github.com/apache/arrow-go/v18/arrow/memory"

	colarspb "github.com/open-telemetry/otel-arrow/api/experimental/arrow/v1"
)

// Mirror is an independent receiver written directly on arrow-go's ipc.Reader
// (no code from pkg/otel): one reader per schema id, fed the payload bytes in
// order. It checks the framing clauses of C12 and exposes every dictionary
// array it sees for C13.
type Mirror struct {
	streams  map[string]*mirrorStream
	latest   map[colarspb.ArrowPayloadType]string
	retired  map[string]bool
	nextID   int64
	Dicts    []DictObs // dictionaries seen in the last batch
	MaxDict  map[string]int
	Payloads int
	BadIndex string // first dictionary index beyond the transmitted dictionary
	pool     memory.Allocator
}

type mirrorStream struct {
	typ    colarspb.ArrowPayloadType
	schema string
	all    bytes.Buffer
	rows   []int64
	rd     *ipc.Reader
	br     *bytes.Reader
}

// DictObs is one dictionary array observed in a decoded record.
type DictObs struct {
	Payload   string
	Column    string
	Len       int
	IndexBits int
}

func NewMirror() *Mirror {
	return &Mirror{
		streams: map[string]*mirrorStream{},
		latest:  map[colarspb.ArrowPayloadType]string{},
		retired: map[string]bool{},
		MaxDict: map[string]int{},
		pool:    memory.NewGoAllocator(),
	}
}

var mainType = map[string]colarspb.ArrowPayloadType{
	Traces:  colarspb.ArrowPayloadType_SPANS,
	Logs:    colarspb.ArrowPayloadType_LOGS,
	Metrics: colarspb.ArrowPayloadType_UNIVARIATE_METRICS,
}

func schemaFingerprint(s *arrow.Schema) string {
	// field names, types (with dictionary index/value types) and metadata
	return s.String()
}

// Feed checks one BatchArrowRecords against the framing clauses and advances
// the per-schema-id readers. It returns "" or the violated clause.
func (m *Mirror) Feed(signal string, bar *colarspb.BatchArrowRecords, mainRows int) (msg string) {
	defer func() {
		if r := recover(); r != nil {
			msg = fmt.Sprintf("independent Arrow reader crashed on the payloads: %v", r)
		}
	}()
	m.Dicts = m.Dicts[:0]
	if bar.BatchId != m.nextID {
		return fmt.Sprintf("batch id %d, expected %d (ids must count up by one from zero)", bar.BatchId, m.nextID)
	}
	m.nextID++
	if len(bar.ArrowPayloads) == 0 {
		return "batch without payloads (the main record must be first)"
	}
	if bar.ArrowPayloads[0].Type != mainType[signal] {
		return fmt.Sprintf("first payload is %v, not the main record %v of the signal", bar.ArrowPayloads[0].Type, mainType[signal])
	}
	seen := map[colarspb.ArrowPayloadType]bool{}
	for pi, pl := range bar.ArrowPayloads {
		m.Payloads++
		if seen[pl.Type] {
			return fmt.Sprintf("payload type %v appears twice in one batch", pl.Type)
		}
		seen[pl.Type] = true
		if m.retired[pl.SchemaId] {
			return fmt.Sprintf("schema id %q is used again after payload type %v had moved to a newer schema id", pl.SchemaId, pl.Type)
		}
		st := m.streams[pl.SchemaId]
		if st == nil {
			st = &mirrorStream{typ: pl.Type, br: bytes.NewReader(pl.Record)}
			rd, err := ipc.NewReader(st.br, ipc.WithAllocator(m.pool), ipc.WithDictionaryDeltas(true), ipc.WithZstd())
			if err != nil {
				return fmt.Sprintf("payload %d (%v, schema id %q): not the start of an Arrow IPC stream: %v", pi, pl.Type, pl.SchemaId, err)
			}
			st.rd = rd
			st.schema = schemaFingerprint(rd.Schema())
			m.streams[pl.SchemaId] = st
			if old, ok := m.latest[pl.Type]; ok && old != pl.SchemaId {
				m.retired[old] = true
			}
			m.latest[pl.Type] = pl.SchemaId
		} else {
			if st.typ != pl.Type {
				return fmt.Sprintf("schema id %q was payload type %v and is now %v", pl.SchemaId, st.typ, pl.Type)
			}
			if m.latest[pl.Type] != pl.SchemaId {
				return fmt.Sprintf("schema id %q used although %q is the current schema id of %v", pl.SchemaId, m.latest[pl.Type], pl.Type)
			}
			st.br.Reset(pl.Record)
		}
		st.all.Write(pl.Record)
		if !st.rd.Next() {
			return fmt.Sprintf("payload %d (%v, schema id %q) holds no record batch an independent reader can decode: %v", pi, pl.Type, pl.SchemaId, st.rd.Err())
		}
		rec := st.rd.Record()
		if fp := schemaFingerprint(rec.Schema()); fp != st.schema {
			return fmt.Sprintf("schema id %q denotes two Arrow schemas:\n  %s\n  %s", pl.SchemaId, st.schema, fp)
		}
		st.rows = append(st.rows, rec.NumRows())
		if pi == 0 && mainRows >= 0 && int(rec.NumRows()) != mainRows {
			return fmt.Sprintf("main record has %d rows for %d items", rec.NumRows(), mainRows)
		}
		if pi > 0 && rec.NumRows() == 0 {
			return fmt.Sprintf("related payload %v is empty", pl.Type)
		}
		for ci, col := range rec.Columns() {
			m.collectDicts(pl.Type.String(), rec.Schema().Field(ci).Name, col)
		}
		if m.BadIndex != "" {
			return fmt.Sprintf("payload %d (%v, schema id %q): %s", pi, pl.Type, pl.SchemaId, m.BadIndex)
		}
	}
	return ""
}

func (m *Mirror) collectDicts(payload, path string, col arrow.Array) {
	switch a := col.(type) {
	case *array.Dictionary:
		bits := 0
		if fw, ok := a.DataType().(*arrow.DictionaryType).IndexType.(arrow.FixedWidthDataType); ok {
			bits = fw.BitWidth()
		}
		n := a.Dictionary().Len()
		m.Dicts = append(m.Dicts, DictObs{Payload: payload, Column: path, Len: n, IndexBits: bits})
		// a valid stream never refers to a dictionary entry that was not
		// transmitted (lost delta / replacement)
		if m.BadIndex == "" {
			for i := 0; i < a.Len(); i++ {
				if a.IsValid(i) && a.GetValueIndex(i) >= n {
					m.BadIndex = fmt.Sprintf("%s.%s row %d refers to dictionary entry %d, the dictionary transmitted so far has %d entries", payload, path, i, a.GetValueIndex(i), n)
					break
				}
			}
		}
		key := payload + "." + path
		if n > m.MaxDict[key] {
			m.MaxDict[key] = n
		}
	case *array.Struct:
		st := a.DataType().(*arrow.StructType)
		for i := 0; i < a.NumField(); i++ {
			m.collectDicts(payload, path+"."+st.Field(i).Name, a.Field(i))
		}
	case *array.Map:
		m.collectDicts(payload, path+".key", a.Keys())
		m.collectDicts(payload, path+".value", a.Items())
	case *array.List:
		m.collectDicts(payload, path+".item", a.ListValues())
	case *array.SparseUnion:
		ut := a.DataType().(*arrow.SparseUnionType)
		for i := 0; i < a.NumFields(); i++ {
			m.collectDicts(payload, path+"."+ut.Fields()[i].Name, a.Field(i))
		}
	case *array.DenseUnion:
		ut := a.DataType().(*arrow.DenseUnionType)
		for i := 0; i < a.NumFields(); i++ {
			m.collectDicts(payload, path+"."+ut.Fields()[i].Name, a.Field(i))
		}
	}
}

// Finish re-reads the concatenated payloads of every schema id with a fresh
// reader: they must form one valid IPC stream with the row counts seen
// incrementally.
func (m *Mirror) Finish() (msg string) {
	defer func() {
		if r := recover(); r != nil {
			msg = fmt.Sprintf("independent Arrow reader crashed re-reading a stream: %v", r)
		}
	}()
	ids := make([]string, 0, len(m.streams))
	for id := range m.streams {
		ids = append(ids, id)
	}
	sort.Strings(ids)
	for _, id := range ids {
		st := m.streams[id]
		rd, err := ipc.NewReader(bytes.NewReader(st.all.Bytes()), ipc.WithAllocator(m.pool), ipc.WithDictionaryDeltas(true), ipc.WithZstd())
		if err != nil {
			return fmt.Sprintf("schema id %q: concatenated payloads are not an IPC stream: %v", id, err)
		}
		i := 0
		for rd.Next() {
			if i >= len(st.rows) || rd.Record().NumRows() != st.rows[i] {
				rd.Release()
				return fmt.Sprintf("schema id %q: record %d of the re-read stream does not match the incremental read", id, i)
			}
			i++
		}
		err = rd.Err()
		rd.Release()
		if err != nil || i != len(st.rows) {
			return fmt.Sprintf("schema id %q: re-read %d of %d records: %v", id, i, len(st.rows), err)
		}
	}
	return ""
}

// Close releases the readers.
func (m *Mirror) Close() {
	for _, st := range m.streams {
		if st.rd != nil {
			st.rd.Release()
		}
	}
}

// Streams is the number of schema ids seen.
func (m *Mirror) Streams() int { return len(m.streams) }

// Retired is the number of schema ids that were replaced.
func (m *Mirror) Retired() int { return len(m.retired) }
