package otap

import (
	"fmt"
	"strings"
	"testing"

	"pgregory.net/rapid"

	"verif/kit"
	"verif/otap/gen"
)

// framingVerdict feeds every emitted BatchArrowRecords of a run to the mirror
// reader. Batches the producer refused emit nothing and consume no batch id.
func framingVerdict(res *StreamResult) (string, *Mirror) {
	m := NewMirror()
	defer m.Close()
	for i, b := range res.Batches {
		if b.EncodePanic != nil || b.EncodeErr != nil || b.BAR == nil {
			continue // C08's business; nothing was emitted
		}
		if msg := m.Feed(b.Signal, b.BAR, b.Items); msg != "" {
			return fmt.Sprintf("batch %d (%s): %s", i, b.Signal, msg), m
		}
	}
	if msg := m.Finish(); msg != "" {
		return msg, m
	}
	return "", m
}

func c12Verdict(c *StreamCase) string {
	res, err := RunStream(c, RunConfig{KeepBAR: true})
	if err != nil {
		return "harness: " + err.Error()
	}
	msg, _ := framingVerdict(res)
	return msg
}

func init() { streamVerdicts["C12"] = c12Verdict }

// TestC12: every emitted BatchArrowRecords is a well-framed continuation of
// its stream, judged on the producer output alone by an independent reader.
func TestC12(t *testing.T) {
	rec := kit.Get("C12")
	runRapid(t, func(t *rapid.T) {
		o := genOptions(t, rec)
		genExtraOptions(t, &o, false)
		plan := historyPlan{MinBatches: 1, MaxBatches: 10, Interleave: true, Knobs: gen.InDomain()}
		long := pct(t, "long", 12)
		if long {
			// long histories in which sub-streams are opened late and at high
			// payload positions: 12-30 batches, mostly metrics (up to 17
			// payload types per batch), small dictionary limits so that tables
			// keep moving to new schema ids
			plan.MinBatches, plan.MaxBatches = 12, 30
			if rapid.IntRange(0, 3).Draw(t, "longsig") > 0 {
				plan.Signal = Metrics
				plan.Interleave = false
			}
			if rapid.Bool().Draw(t, "longu8") {
				o.Dict = "u8"
			}
		}
		fan := !long && pct(t, "fancross", 2)
		if fan {
			// a related record's dictionary crosses the 16-bit limit while the
			// main record stays small, between small and attribute-less batches
			plan.FanCross = true
			plan.MinBatches, plan.MaxBatches = 3, 6
			plan.Interleave = false
			o.Dict = rapid.SampledFrom([]string{"u32", "", "u16", "u64"}).Draw(t, "fandict")
		}
		big := !long && !fan && thorough() && pct(t, "big", 1)
		if big {
			// dictionary indexes widening from 16 to 32 bits, overflowing or
			// being reset at the 16-bit limit: histories crossing 65,535
			// distinct values (as in C04/C13)
			plan.Big = true
			plan.MinBatches, plan.MaxBatches = 3, 4
			plan.Interleave = false
			o.Dict = rapid.SampledFrom([]string{"u32", "", "u16", "u64"}).Draw(t, "bigdict")
		}
		c, gs := genOptionHistory(t, plan)
		c.Options = o
		res, err := RunStream(c, RunConfig{KeepBAR: true})
		if err != nil {
			t.Fatalf("harness: %v", err)
		}
		msg, m := framingVerdict(res)
		labels := append(optionLabels(o), transitionLabels(res)...)
		sigs := map[string]bool{}
		for _, b := range c.Batches {
			sigs[b.Signal] = true
		}
		if len(sigs) > 1 {
			labels = append(labels, "interleaved_signals")
		}
		if m.Retired() > 0 {
			labels = append(labels, "schema_id_retired")
		}
		if long {
			labels = append(labels, "long_history_12_to_30_batches")
		}
		if gs.Stats["payload_over_1MiB"] > 0 {
			labels = append(labels, "payload_over_1MiB_then_same_schema")
		}
		if big {
			labels = append(labels, "history_crossing_65535")
		}
		if fan {
			labels = append(labels, "related_record_crossing_65535")
		}
		maxPayloads := 0
		for _, b := range res.Batches {
			if b.BAR != nil && len(b.BAR.ArrowPayloads) > maxPayloads {
				maxPayloads = len(b.BAR.ArrowPayloads)
			}
		}
		labels = append(labels, "max_payloads_per_batch="+bucket(maxPayloads))
		if res.Events.Total("reset") > 0 {
			labels = append(labels, "dictionary_reset_under_unchanged_schema")
		}
		labels = append(labels, "streams="+bucket(m.Streams()))
		var shapes []string
		for _, b := range res.Batches {
			n := 0
			if b.BAR != nil {
				n = len(b.BAR.ArrowPayloads)
			}
			shapes = append(shapes, fmt.Sprintf("%s%s/%d%s", b.Signal[:1], bucket(b.Items), n, strings.Join(b.NewEvents, "+")))
		}
		nontrivial := m.Retired() > 0 || res.Events.Total("reset") > 0 || len(sigs) > 1
		rec.Case(nontrivial, o.String()+"#"+strings.Join(shapes, "|"), labels, sampleOf(c, res))
		if msg != "" {
			rec.Fail(t, c, "options %s: %s", o, msg)
		}
	})
}
