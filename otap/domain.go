package otap

import (
	"math"
	"strings"
	"unicode/utf8"

	"go.opentelemetry.io/collector/pdata/pcommon"
	"go.opentelemetry.io/collector/pdata/plog"
	"go.opentelemetry.io/collector/pdata/pmetric"
	"go.opentelemetry.io/collector/pdata/ptrace"
)

// Domain is what domainOf found out about an input that did not come from the
// harness generators (bytes mutated by the coverage-guided fuzzer and parsed
// by pdata). The round-trip properties C01-C04 state their domain explicitly:
// valid UTF-8 strings, timestamps <= 2^63-1, list/map nesting <= 16; attribute
// keys are unique per map (pdata's Put* upserts, OTLP forbids duplicates).
type Domain struct {
	Outside     []string // reasons why the input is outside the C01-C03 domain (empty = inside)
	DupKeys     int      // duplicate attribute keys removed (first occurrence kept)
	TrailingNul bool     // some string ends in NUL (precondition of the C04 known findings)
	TooDeep     bool     // nesting beyond 64 levels: not walked any further
	Strings     int
}

func (d *Domain) In() bool { return len(d.Outside) == 0 }

func (d *Domain) out(why string) {
	for _, w := range d.Outside {
		if w == why {
			return
		}
	}
	d.Outside = append(d.Outside, why)
}

func (d *Domain) str(s string) {
	d.Strings++
	if !utf8.ValidString(s) {
		d.out("invalid UTF-8")
	}
	if strings.HasSuffix(s, "\x00") {
		d.TrailingNul = true
	}
}

func (d *Domain) ts(t pcommon.Timestamp) {
	if uint64(t) > math.MaxInt64 {
		d.out("timestamp above 2^63-1")
	}
}

// maxFuzzDepth is deliberately below the 16 levels of the stated domain so
// that no reading of "nesting depth" puts an accepted input outside it.
const maxFuzzDepth = 12

func (d *Domain) attrs(m pcommon.Map, depth int) {
	if depth > maxFuzzDepth {
		d.out("nesting deeper than the domain allows")
	}
	if depth > 64 {
		d.TooDeep = true
		return
	}
	seen := map[string]bool{}
	m.RemoveIf(func(k string, _ pcommon.Value) bool {
		if seen[k] {
			d.DupKeys++
			return true
		}
		seen[k] = true
		return false
	})
	m.Range(func(k string, v pcommon.Value) bool {
		d.str(k)
		d.value(v, depth)
		return true
	})
}

func (d *Domain) value(v pcommon.Value, depth int) {
	switch v.Type() {
	case pcommon.ValueTypeStr:
		d.str(v.Str())
	case pcommon.ValueTypeSlice:
		if depth+1 > maxFuzzDepth {
			d.out("nesting deeper than the domain allows")
		}
		if depth+1 > 64 {
			d.TooDeep = true
			return
		}
		sl := v.Slice()
		for i := 0; i < sl.Len(); i++ {
			d.value(sl.At(i), depth+1)
		}
	case pcommon.ValueTypeMap:
		d.attrs(v.Map(), depth+1)
	}
}

func (d *Domain) resource(r pcommon.Resource, url string) {
	d.attrs(r.Attributes(), 0)
	d.str(url)
}

func (d *Domain) scope(s pcommon.InstrumentationScope, url string) {
	d.attrs(s.Attributes(), 0)
	d.str(s.Name())
	d.str(s.Version())
	d.str(url)
}

func (d *Domain) exemplars(es pmetric.ExemplarSlice) {
	for i := 0; i < es.Len(); i++ {
		e := es.At(i)
		d.attrs(e.FilteredAttributes(), 0)
		d.ts(e.Timestamp())
	}
}

// domainOf walks the whole input, removes duplicate attribute keys in place
// and reports whether the input lies inside the domain of C01-C03.
func domainOf(in Input) *Domain {
	d := &Domain{}
	switch in.Signal {
	case Traces:
		rss := in.Traces.ResourceSpans()
		for i := 0; i < rss.Len(); i++ {
			rs := rss.At(i)
			d.resource(rs.Resource(), rs.SchemaUrl())
			for j := 0; j < rs.ScopeSpans().Len(); j++ {
				ss := rs.ScopeSpans().At(j)
				d.scope(ss.Scope(), ss.SchemaUrl())
				for k := 0; k < ss.Spans().Len(); k++ {
					sp := ss.Spans().At(k)
					d.attrs(sp.Attributes(), 0)
					d.str(sp.Name())
					d.str(sp.TraceState().AsRaw())
					d.str(sp.Status().Message())
					d.ts(sp.StartTimestamp())
					d.ts(sp.EndTimestamp())
					for e := 0; e < sp.Events().Len(); e++ {
						ev := sp.Events().At(e)
						d.attrs(ev.Attributes(), 0)
						d.str(ev.Name())
						d.ts(ev.Timestamp())
					}
					for l := 0; l < sp.Links().Len(); l++ {
						lk := sp.Links().At(l)
						d.attrs(lk.Attributes(), 0)
						d.str(lk.TraceState().AsRaw())
					}
				}
			}
		}
	case Logs:
		rls := in.Logs.ResourceLogs()
		for i := 0; i < rls.Len(); i++ {
			rl := rls.At(i)
			d.resource(rl.Resource(), rl.SchemaUrl())
			for j := 0; j < rl.ScopeLogs().Len(); j++ {
				sl := rl.ScopeLogs().At(j)
				d.scope(sl.Scope(), sl.SchemaUrl())
				for k := 0; k < sl.LogRecords().Len(); k++ {
					lr := sl.LogRecords().At(k)
					d.attrs(lr.Attributes(), 0)
					d.value(lr.Body(), 0)
					d.str(lr.SeverityText())
					d.ts(lr.Timestamp())
					d.ts(lr.ObservedTimestamp())
				}
			}
		}
	default:
		rms := in.Metrics.ResourceMetrics()
		for i := 0; i < rms.Len(); i++ {
			rm := rms.At(i)
			d.resource(rm.Resource(), rm.SchemaUrl())
			for j := 0; j < rm.ScopeMetrics().Len(); j++ {
				sm := rm.ScopeMetrics().At(j)
				d.scope(sm.Scope(), sm.SchemaUrl())
				for k := 0; k < sm.Metrics().Len(); k++ {
					m := sm.Metrics().At(k)
					d.str(m.Name())
					d.str(m.Description())
					d.str(m.Unit())
					switch m.Type() {
					case pmetric.MetricTypeGauge:
						d.numberPoints(m.Gauge().DataPoints())
					case pmetric.MetricTypeSum:
						d.numberPoints(m.Sum().DataPoints())
					case pmetric.MetricTypeHistogram:
						dps := m.Histogram().DataPoints()
						for p := 0; p < dps.Len(); p++ {
							dp := dps.At(p)
							d.attrs(dp.Attributes(), 0)
							d.ts(dp.StartTimestamp())
							d.ts(dp.Timestamp())
							d.exemplars(dp.Exemplars())
						}
					case pmetric.MetricTypeExponentialHistogram:
						dps := m.ExponentialHistogram().DataPoints()
						for p := 0; p < dps.Len(); p++ {
							dp := dps.At(p)
							d.attrs(dp.Attributes(), 0)
							d.ts(dp.StartTimestamp())
							d.ts(dp.Timestamp())
							d.exemplars(dp.Exemplars())
						}
					case pmetric.MetricTypeSummary:
						dps := m.Summary().DataPoints()
						for p := 0; p < dps.Len(); p++ {
							dp := dps.At(p)
							d.attrs(dp.Attributes(), 0)
							d.ts(dp.StartTimestamp())
							d.ts(dp.Timestamp())
						}
					}
				}
			}
		}
	}
	return d
}

func (d *Domain) numberPoints(dps pmetric.NumberDataPointSlice) {
	for p := 0; p < dps.Len(); p++ {
		dp := dps.At(p)
		d.attrs(dp.Attributes(), 0)
		d.ts(dp.StartTimestamp())
		d.ts(dp.Timestamp())
		d.exemplars(dp.Exemplars())
	}
}

var (
	_ = ptrace.NewTraces
	_ = plog.NewLogs
)
