package otap

import (
	"fmt"
	"os"
	"strings"
	"testing"

	"pgregory.net/rapid"

	"verif/kit"
	"verif/otap/canon"
	"verif/otap/gen"
)

func thorough() bool { return os.Getenv("VERIF_TIER") == "thorough" }

// genBatch draws the next batch of the given signal from the stream.
func genBatch(s *gen.Stream, signal string) Batch {
	switch signal {
	case Traces:
		return TracesBatch(s.Traces())
	case Logs:
		return LogsBatch(s.Logs())
	default:
		return MetricsBatch(s.Metrics())
	}
}

var otherSignals = map[string][]string{
	Traces:  {Logs, Metrics},
	Logs:    {Traces, Metrics},
	Metrics: {Traces, Logs},
}

// genHistory draws a stream history of 1-8 batches of the signal; with
// interleave, batches of the other signals are put on the same producer now
// and then.
func genHistory(t *rapid.T, signal string, k gen.Knobs, interleave bool) (*StreamCase, *gen.Stream) {
	nb := rapid.IntRange(1, 8).Draw(t, "nb")
	if rapid.IntRange(0, 3).Draw(t, "scalek") == 0 {
		k.Scale = 1
		if thorough() && rapid.IntRange(0, 3).Draw(t, "scalek2") == 0 {
			k.Scale = 2
		}
	}
	s := gen.NewStream(t, k, nb)
	c := &StreamCase{}
	// the upper end of the domain: a batch with exactly 65,535 (65,534, 40,000,
	// 32,768) attribute-bearing parents, as first batch or after ordinary ones
	boundaryAt := -1
	var br *gen.Ramp
	if !interleave && s.Rare("boundary", 5) {
		boundaryAt = rapid.IntRange(0, nb-1).Draw(t, "boundaryat")
		if boundaryAt > 2 {
			boundaryAt = 2
		}
		br = gen.NewBoundaryRamp(t)
		s.Stats["batch_at_the_65535_parent_boundary"]++
	}
	for b := 0; b < nb; b++ {
		s.B = b
		if b == boundaryAt {
			switch signal {
			case Traces:
				c.Batches = append(c.Batches, TracesBatch(br.Traces()))
			case Logs:
				c.Batches = append(c.Batches, LogsBatch(br.Logs()))
			default:
				c.Batches = append(c.Batches, MetricsBatch(br.Metrics()))
			}
			continue
		}
		if interleave && rapid.IntRange(0, 5).Draw(t, "interleave") == 0 {
			c.Batches = append(c.Batches, genBatch(s, rapid.SampledFrom(otherSignals[signal]).Draw(t, "othersig")))
		}
		c.Batches = append(c.Batches, genBatch(s, signal))
	}
	insertBigPayload(t, c, s, signal, interleave || boundaryAt >= 0)
	return c, s
}

// roundTripVerdict applies the round-trip oracle to the batches of `signal`
// (all signals when signal == ""). It returns "" or a failure message.
func roundTripVerdict(res *StreamResult, signal string) string {
	for i, b := range res.Batches {
		if signal != "" && b.Signal != signal {
			if b.EncodePanic != nil || b.EncodeErr != nil || b.Decoded.Err != nil || b.Decoded.Panic != nil {
				return "" // interleaved batch of another signal failed: not this property's verdict
			}
			continue
		}
		if b.EncodePanic != nil {
			return fmt.Sprintf("batch %d (%s): producer panicked: %s", i, b.Signal, b.EncodePanic)
		}
		if b.EncodeErr != nil {
			return fmt.Sprintf("batch %d (%s): producer refused an in-domain batch: %v", i, b.Signal, b.EncodeErr)
		}
		if b.Decoded.Panic != nil {
			return fmt.Sprintf("batch %d (%s): consumer panicked on a valid stream: %s", i, b.Signal, b.Decoded.Panic)
		}
		if b.Decoded.Err != nil {
			return fmt.Sprintf("batch %d (%s): consumer refused a valid batch: %v", i, b.Signal, b.Decoded.Err)
		}
		if d := canon.Diff(b.Want, b.Decoded.Canon); d != "" {
			return fmt.Sprintf("batch %d (%s): decoded telemetry differs from encoded: %s", i, b.Signal, d)
		}
	}
	return ""
}

// streamLabels classifies a run for the evidence histogram and returns the
// non-triviality facts.
func streamLabels(c *StreamCase, res *StreamResult, signal string) (labels []string, nonEmpty int, lateUpdate bool, shape string) {
	var shapes []string
	first := true
	for _, b := range res.Batches {
		if b.Items > 0 {
			nonEmpty++
		}
		if !first && b.SchemaUpdates > 0 {
			lateUpdate = true
		}
		if b.Items > 0 {
			first = false
		}
	}
	for _, b := range c.Batches {
		in, err := b.Decode()
		if err == nil {
			shapes = append(shapes, in.Shape())
		}
	}
	labels = append(labels, fmt.Sprintf("batches=%s", bucket(len(c.Batches))))
	if lateUpdate {
		labels = append(labels, "schema_update_after_first_batch")
	}
	for _, k := range res.Events.Kinds() {
		labels = append(labels, "event:"+k)
	}
	interleaved := false
	for _, b := range c.Batches {
		if signal != "" && b.Signal != signal {
			interleaved = true
		}
	}
	if interleaved {
		labels = append(labels, "interleaved_signals")
	}
	shape = strings.Join(shapes, "|") + "#" + strings.Join(res.Events.Kinds(), ",")
	return
}

func sampleOf(c *StreamCase, res *StreamResult) func() any {
	return func() any {
		var bs []any
		for i, b := range res.Batches {
			e := map[string]any{"signal": b.Signal, "items": b.Items, "new_events": b.NewEvents}
			if len(b.Want) > 0 {
				e["first_item"] = kit.Truncate(b.Want[0], 400)
			}
			if b.BAR != nil {
				e["payloads"] = len(b.BAR.ArrowPayloads)
			}
			if i < len(c.Batches) {
				e["otlp_bytes"] = len(c.Batches[i].Proto)
			}
			bs = append(bs, e)
			if len(bs) >= 4 {
				break
			}
		}
		return map[string]any{"options": c.Options.String(), "batches": len(c.Batches), "first_batches": bs}
	}
}

func roundTripProperty(id, signal string) func(t *rapid.T) {
	rec := kit.Get(id)
	return func(t *rapid.T) {
		// single-signal histories: the quantifier of C01-C03 is "sequences of
		// batches of one signal on one stream"; interleaved signals are
		// exercised by C12 and C15.
		c, s := genHistory(t, signal, gen.InDomain(), false)
		res, err := RunStream(c, RunConfig{Decode: true, StopAtDecodeFail: true})
		if err != nil {
			t.Fatalf("harness: %v", err)
		}
		labels, nonEmpty, late, shape := streamLabels(c, res, signal)
		sib := s.Stats["resource_siblings"] + s.Stats["scope_siblings"] + s.Stats["resource_copies"] + s.Stats["scope_copies"]
		for k, v := range s.Stats {
			if v > 0 {
				labels = append(labels, "gen:"+k)
			}
		}
		nontrivial := (nonEmpty >= 2 && late) || (sib > 0 && nonEmpty >= 1)
		rec.Case(nontrivial, shape, labels, sampleOf(c, res))
		if msg := roundTripVerdict(res, signal); msg != "" {
			rec.Fail(t, c, "%s", msg)
		}
	}
}

func TestC01(t *testing.T) { rapid.Check(t, roundTripProperty("C01", Traces)) }
func TestC02(t *testing.T) { rapid.Check(t, roundTripProperty("C02", Logs)) }
func TestC03(t *testing.T) { rapid.Check(t, roundTripProperty("C03", Metrics)) }

// streamVerdicts maps a property id to its oracle over a saved StreamCase; it
// serves the replay tier, --replay and the structural minimizer.
var streamVerdicts = map[string]func(c *StreamCase) string{}

func roundTripCaseVerdict(signal string) func(c *StreamCase) string {
	return func(c *StreamCase) string {
		res, err := RunStream(c, RunConfig{Decode: true, StopAtDecodeFail: true})
		if err != nil {
			return "harness: " + err.Error()
		}
		return roundTripVerdict(res, signal)
	}
}

func init() {
	streamVerdicts["C01"] = roundTripCaseVerdict(Traces)
	streamVerdicts["C02"] = roundTripCaseVerdict(Logs)
	streamVerdicts["C03"] = roundTripCaseVerdict(Metrics)
}
