package otap

import (
	"os"
	"strconv"
	"time"

	"go.opentelemetry.io/collector/pdata/pcommon"
	"go.opentelemetry.io/collector/pdata/plog"
	"go.opentelemetry.io/collector/pdata/pmetric"
	"go.opentelemetry.io/collector/pdata/ptrace"
)

// Minimize is a structural shrinker applied after rapid's own shrinking: it
// greedily removes batches, containers, items, children and attributes while
// the case keeps failing. It makes replay files small enough to read. The
// predicate must be deterministic.
func Minimize(c *StreamCase, fails func(*StreamCase) bool, budget int) *StreamCase {
	cur := cloneCase(c)
	tries := 0
	deadline := time.Now().Add(minimizeWall())
	try := func(cand *StreamCase) bool {
		if tries >= budget || time.Now().After(deadline) {
			tries = budget
			return false
		}
		tries++
		return fails(cand)
	}
	for changed := true; changed && tries < budget; {
		changed = false
		// drop whole batches
		for i := len(cur.Batches) - 1; i >= 0 && len(cur.Batches) > 1; i-- {
			cand := cloneCase(cur)
			cand.Batches = append(cand.Batches[:i], cand.Batches[i+1:]...)
			if try(cand) {
				cur = cand
				changed = true
			}
		}
		// empty a batch (keeps stream positions)
		for i := range cur.Batches {
			if len(cur.Batches[i].Proto) == 0 {
				continue
			}
			cand := cloneCase(cur)
			cand.Batches[i].Proto = nil
			if try(cand) {
				cur = cand
				changed = true
			}
		}
		// remove one element inside a batch
		for i := range cur.Batches {
			for progress := true; progress && tries < budget; {
				progress = false
				in, err := cur.Batches[i].Decode()
				if err != nil {
					break
				}
				n := countRemovable(in)
				for k := n - 1; k >= 0; k-- {
					in2, err := cur.Batches[i].Decode()
					if err != nil {
						break
					}
					if !removeNth(in2, k) {
						continue
					}
					cand := cloneCase(cur)
					cand.Batches[i] = Batch{Signal: in2.Signal, Proto: in2.Marshal()}
					if try(cand) {
						cur = cand
						changed = true
						progress = true
						break // indices shifted; recount
					}
				}
			}
		}
	}
	return cur
}

// minimizeWall is the wall-clock budget of the minimizer (a tool-side time
// limit, not part of any oracle).
func minimizeWall() time.Duration {
	if v, err := strconv.Atoi(os.Getenv("VERIF_MINIMIZE_SECONDS")); err == nil && v > 0 {
		return time.Duration(v) * time.Second
	}
	return 10 * time.Minute
}

func cloneCase(c *StreamCase) *StreamCase {
	out := &StreamCase{Options: c.Options}
	out.Batches = make([]Batch, len(c.Batches))
	for i, b := range c.Batches {
		out.Batches[i] = Batch{Signal: b.Signal, Proto: append([]byte(nil), b.Proto...), Synth: b.Synth}
	}
	return out
}

// walker visits every removable element of an input in a fixed order. When
// the counter reaches target the element is removed and the walk stops.
type walker struct {
	n      int
	target int
	done   bool
}

func (w *walker) hit() bool {
	if w.done {
		return false
	}
	if w.n == w.target {
		w.done = true
		w.n++
		return true
	}
	w.n++
	return false
}

func (w *walker) attrs(m pcommon.Map) {
	var keys []string
	m.Range(func(k string, v pcommon.Value) bool { keys = append(keys, k); return true })
	for _, k := range keys {
		if w.hit() {
			m.Remove(k)
			return
		}
		v, ok := m.Get(k)
		if ok {
			w.value(v)
		}
	}
}

func (w *walker) value(v pcommon.Value) {
	switch v.Type() {
	case pcommon.ValueTypeSlice:
		sl := v.Slice()
		idx := -1
		for i := 0; i < sl.Len(); i++ {
			if w.hit() {
				idx = i
				break
			}
			w.value(sl.At(i))
		}
		if idx >= 0 {
			j := 0
			sl.RemoveIf(func(pcommon.Value) bool { j++; return j-1 == idx })
		}
	case pcommon.ValueTypeMap:
		w.attrs(v.Map())
	}
}

func removeAt[T any](n int, at func(int) T, visit func(T), removeIf func(func(T) bool), w *walker) {
	idx := -1
	for i := 0; i < n; i++ {
		if w.hit() {
			idx = i
			break
		}
		visit(at(i))
		if w.done {
			return
		}
	}
	if idx >= 0 {
		j := 0
		removeIf(func(T) bool { j++; return j-1 == idx })
	}
}

func (w *walker) traces(td ptrace.Traces) {
	rss := td.ResourceSpans()
	removeAt(rss.Len(), rss.At, func(rs ptrace.ResourceSpans) {
		w.attrs(rs.Resource().Attributes())
		sss := rs.ScopeSpans()
		removeAt(sss.Len(), sss.At, func(ss ptrace.ScopeSpans) {
			w.attrs(ss.Scope().Attributes())
			sps := ss.Spans()
			removeAt(sps.Len(), sps.At, func(sp ptrace.Span) {
				w.attrs(sp.Attributes())
				evs := sp.Events()
				removeAt(evs.Len(), evs.At, func(e ptrace.SpanEvent) { w.attrs(e.Attributes()) }, evs.RemoveIf, w)
				lks := sp.Links()
				removeAt(lks.Len(), lks.At, func(l ptrace.SpanLink) { w.attrs(l.Attributes()) }, lks.RemoveIf, w)
			}, sps.RemoveIf, w)
		}, sss.RemoveIf, w)
	}, rss.RemoveIf, w)
}

func (w *walker) logs(ld plog.Logs) {
	rls := ld.ResourceLogs()
	removeAt(rls.Len(), rls.At, func(rl plog.ResourceLogs) {
		w.attrs(rl.Resource().Attributes())
		sls := rl.ScopeLogs()
		removeAt(sls.Len(), sls.At, func(sl plog.ScopeLogs) {
			w.attrs(sl.Scope().Attributes())
			lrs := sl.LogRecords()
			removeAt(lrs.Len(), lrs.At, func(l plog.LogRecord) {
				w.attrs(l.Attributes())
				w.value(l.Body())
			}, lrs.RemoveIf, w)
		}, sls.RemoveIf, w)
	}, rls.RemoveIf, w)
}

func (w *walker) exemplars(es pmetric.ExemplarSlice) {
	removeAt(es.Len(), es.At, func(e pmetric.Exemplar) { w.attrs(e.FilteredAttributes()) }, es.RemoveIf, w)
}

func (w *walker) numberPoints(dps pmetric.NumberDataPointSlice) {
	removeAt(dps.Len(), dps.At, func(dp pmetric.NumberDataPoint) {
		w.attrs(dp.Attributes())
		w.exemplars(dp.Exemplars())
	}, dps.RemoveIf, w)
}

func (w *walker) metrics(md pmetric.Metrics) {
	rms := md.ResourceMetrics()
	removeAt(rms.Len(), rms.At, func(rm pmetric.ResourceMetrics) {
		w.attrs(rm.Resource().Attributes())
		sms := rm.ScopeMetrics()
		removeAt(sms.Len(), sms.At, func(sm pmetric.ScopeMetrics) {
			w.attrs(sm.Scope().Attributes())
			ms := sm.Metrics()
			removeAt(ms.Len(), ms.At, func(m pmetric.Metric) {
				switch m.Type() {
				case pmetric.MetricTypeGauge:
					w.numberPoints(m.Gauge().DataPoints())
				case pmetric.MetricTypeSum:
					w.numberPoints(m.Sum().DataPoints())
				case pmetric.MetricTypeHistogram:
					dps := m.Histogram().DataPoints()
					removeAt(dps.Len(), dps.At, func(dp pmetric.HistogramDataPoint) {
						w.attrs(dp.Attributes())
						w.exemplars(dp.Exemplars())
					}, dps.RemoveIf, w)
				case pmetric.MetricTypeExponentialHistogram:
					dps := m.ExponentialHistogram().DataPoints()
					removeAt(dps.Len(), dps.At, func(dp pmetric.ExponentialHistogramDataPoint) {
						w.attrs(dp.Attributes())
						w.exemplars(dp.Exemplars())
					}, dps.RemoveIf, w)
				case pmetric.MetricTypeSummary:
					dps := m.Summary().DataPoints()
					removeAt(dps.Len(), dps.At, func(dp pmetric.SummaryDataPoint) {
						w.attrs(dp.Attributes())
						qs := dp.QuantileValues()
						removeAt(qs.Len(), qs.At, func(pmetric.SummaryDataPointValueAtQuantile) {}, qs.RemoveIf, w)
					}, dps.RemoveIf, w)
				}
			}, ms.RemoveIf, w)
		}, sms.RemoveIf, w)
	}, rms.RemoveIf, w)
}

func (w *walker) walk(in Input) {
	switch in.Signal {
	case Traces:
		w.traces(in.Traces)
	case Logs:
		w.logs(in.Logs)
	default:
		w.metrics(in.Metrics)
	}
}

func countRemovable(in Input) int {
	w := &walker{target: -1}
	w.walk(in)
	return w.n
}

// removeNth removes the n-th removable element in place.
func removeNth(in Input, n int) bool {
	w := &walker{target: n}
	w.walk(in)
	return w.done
}
