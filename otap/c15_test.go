package otap

import (
	"bytes"
	"fmt"
	"strings"
	"testing"

	"github.com/apache/arrow-go/v18/arrow/memory"
	"pgregory.net/rapid"

	"github.com/open-telemetry/otel-arrow/pkg/config"
	"github.com/open-telemetry/otel-arrow/pkg/otel/arrow_record"

	"verif/kit"
)

// cleanVerdict is the C15 oracle: the OTLP serialisation of every input is
// byte-identical before and after encoding, and after Close the producer has
// returned every byte to the allocator it was configured with.
func cleanVerdict(res *StreamResult) string {
	for i, b := range res.Batches {
		if b.InputMutated {
			return fmt.Sprintf("batch %d (%s): the producer modified the telemetry it was given", i, b.Signal)
		}
	}
	if res.Aborted {
		return "" // a producer panic is C08's verdict; allocator state is undefined after it
	}
	if res.ClosePan != nil {
		return "Producer.Close panicked: " + res.ClosePan.String()
	}
	if res.LeakBytes != 0 {
		return fmt.Sprintf("%d bytes still allocated after Producer.Close", res.LeakBytes)
	}
	return ""
}

func c15Verdict(c *StreamCase) string {
	if g, ok := isGiantCase(c); ok {
		return giantLeakVerdict(g)
	}
	res, err := RunStream(c, RunConfig{CheckedAllocator: true, CheckImmutable: true})
	if err != nil {
		return "harness: " + err.Error()
	}
	return cleanVerdict(res)
}

func init() { streamVerdicts["C15"] = c15Verdict }

// TestC15: input untouched, allocator balance zero after Close - over option
// histories with mixed signals, schema updates, overflow/reset rebuilds.
func TestC15(t *testing.T) {
	rec := kit.Get("C15")
	rapid.Check(t, func(t *rapid.T) {
		o := genOptions(t, rec)
		genExtraOptions(t, &o, true)
		c, _ := genOptionHistory(t, historyPlan{MinBatches: 1, MaxBatches: 8, Interleave: true, Knobs: hostileKnobs()})
		c.Options = o
		res, err := RunStream(c, RunConfig{CheckedAllocator: true, CheckImmutable: true})
		if err != nil {
			t.Fatalf("harness: %v", err)
		}
		labels := append(optionLabels(o), transitionLabels(res)...)
		rebuilds := 0
		refused := 0
		for _, b := range res.Batches {
			rebuilds += b.SchemaUpdates
			if b.EncodeErr != nil {
				refused++
			}
		}
		if refused > 0 {
			labels = append(labels, "encode_error")
		}
		sigs := map[string]bool{}
		for _, b := range c.Batches {
			sigs[b.Signal] = true
		}
		if len(sigs) > 1 {
			labels = append(labels, "interleaved_signals")
		}
		var shapes []string
		for _, b := range res.Batches {
			shapes = append(shapes, b.Signal[:1]+bucket(b.Items)+strings.Join(b.NewEvents, "+"))
		}
		rec.Case(rebuilds > 0, o.String()+"#"+strings.Join(shapes, "|"), labels, sampleOf(c, res))
		if msg := cleanVerdict(res); msg != "" {
			rec.Fail(t, c, "options %s: %s", o, msg)
		}
	})
}

// TestC15Refused: histories containing batches the producer refuses (giants).
func TestC15Refused(t *testing.T) {
	rec := kit.Get("C15")
	rapid.Check(t, func(t *rapid.T) {
		g := Giant{
			Family: rapid.SampledFrom(giantFamilies).Draw(t, "family"),
			N:      rapid.SampledFrom([]int{65537, 70000}).Draw(t, "n"),
			Before: rapid.IntRange(0, 2).Draw(t, "before"),
			After:  rapid.IntRange(0, 2).Draw(t, "after"),
		}
		msg := giantLeakVerdict(g)
		rec.Case(true, "refused:"+g.String(), []string{"encode_error", "giant:" + g.Family}, func() any { return map[string]any{"giant": g} })
		if msg != "" {
			rec.Fail(t, g.toCase(), "%s", msg)
		}
	})
}

// giantLeakVerdict runs small batches, a giant the producer refuses, small
// batches, on a producer with a checked allocator.
func giantLeakVerdict(g Giant) string {
	sig := giantSignal(g.Family)
	small := g.SmallSig
	if small == "" {
		small = sig
	}
	var inputs []Input
	for i := 0; i < g.Before; i++ {
		inputs = append(inputs, smallValid(small, i))
	}
	inputs = append(inputs, buildGiant(g))
	for i := 0; i < g.After; i++ {
		inputs = append(inputs, smallValid(small, 100+i))
	}
	pool := memory.NewCheckedAllocator(memory.NewGoAllocator())
	p := arrow_record.NewProducerWithOptions(config.WithAllocator(pool))
	for i, in := range inputs {
		before := in.Marshal()
		_, _, pn := Encode(p, in)
		if pn != nil {
			return "" // C08's verdict
		}
		if !bytes.Equal(before, in.Marshal()) {
			return fmt.Sprintf("batch %d (%s, %d items): the producer modified the telemetry it was given", i, in.Signal, in.Items())
		}
	}
	var cerr error
	if pn := catch(func() { cerr = p.Close() }); pn != nil {
		return "Producer.Close panicked: " + pn.String()
	}
	_ = cerr
	if n := pool.CurrentAlloc(); n != 0 {
		return fmt.Sprintf("%d bytes still allocated after Producer.Close (history with a refused batch: %s)", n, g)
	}
	return ""
}
