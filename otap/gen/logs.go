package gen

import (
	"go.opentelemetry.io/collector/pdata/plog"
	"pgregory.net/rapid"
)

// Logs generates the next log batch of the stream.
func (s *Stream) Logs() plog.Logs {
	ld := plog.NewLogs()
	nr := s.N("nres")
	for i := 0; i < nr; i++ {
		rl := ld.ResourceLogs().AppendEmpty()
		rl.SetSchemaUrl(s.Resource(rl.Resource()))
		ns := s.N("nscope")
		for j := 0; j < ns; j++ {
			sl := rl.ScopeLogs().AppendEmpty()
			sl.SetSchemaUrl(s.Scope(sl.Scope()))
			nl := s.N("nlog")
			for k := 0; k < nl; k++ {
				s.LogRecord(sl.LogRecords().AppendEmpty())
			}
		}
	}
	return ld
}

// LogRecord fills one log record.
func (s *Stream) LogRecord(l plog.LogRecord) {
	l.SetTimestamp(s.TSOpt("log.ts"))
	l.SetObservedTimestamp(s.TSOpt("log.ots"))
	if s.On("log.trace_id") {
		l.SetTraceID(s.TraceID())
	}
	if s.On("log.span_id") {
		l.SetSpanID(s.SpanID())
	}
	if s.On("log.sevnum") {
		l.SetSeverityNumber(plog.SeverityNumber(rapid.SampledFrom([]int32{0, 1, 9, 24, 25, 255, 256, -1, 2147483647}).Draw(s.T, "sev")))
	}
	l.SetSeverityText(s.StrOpt("log.sevtext"))
	if s.On("log.body") {
		s.Val(l.Body(), 0)
	}
	s.Attrs(l.Attributes(), "log.attrs")
	l.SetDroppedAttributesCount(s.U32Opt("log.dac"))
	if s.On("log.flags") {
		l.SetFlags(plog.LogRecordFlags(s.U32()))
	}
}
