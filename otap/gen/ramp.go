package gen

import (
	"strconv"

	"go.opentelemetry.io/collector/pdata/pcommon"
	"go.opentelemetry.io/collector/pdata/plog"
	"go.opentelemetry.io/collector/pdata/pmetric"
	"go.opentelemetry.io/collector/pdata/ptrace"
	"pgregory.net/rapid"
)

// Ramp generates batches whose dictionary columns follow a cardinality plan:
// every item carries values derived from an integer id taken from a growing
// universe, so the number of distinct values per column and the reuse ratio
// are controlled. Sizes straddle 255 (and, when Big is set, 65,535) because
// natural sizes starve the overflow/reset transitions (DESIGN.md Appendix A).
type Ramp struct {
	T     *rapid.T
	Next  int   // size of the id universe so far
	Reuse int   // how many items share one id inside a batch (>=1)
	Sizes []int // pool of batch sizes (number of ids per batch)
	Wide  bool  // several attributes per item (more dictionary columns touched)
	Fresh []int // pool of "percent of fresh ids" per batch
	// Containers: the items of a batch are spread over this many distinct
	// resources and scopes (300 crosses the 8-bit dictionaries of the
	// container-level columns: schema URLs, scope names/versions)
	Containers int
	// Big: the first batches are as large as the id width allows and all
	// fresh, until the id universe is past 65,535 + a margin
	Big bool
	// Fan: distinct string attribute values per item (all string values of an
	// attribute table share ONE dictionary column, so with Fan > 1 the related
	// record crosses a limit while the main record does not)
	Fan int
	// PlainPct: percent of batches whose items carry no attributes, events,
	// links or exemplars (related payload types disappear and come back)
	PlainPct int
	plain    bool // the batch being built
	// Boundary: batches may have up to exactly 65,535 ids (otherwise a margin
	// is kept below the id width)
	Boundary bool
	// AllCols: EVERY dictionary-encoded column follows the id, also the ones
	// that hold (open) enums or ids: span kind, status code, severity number,
	// aggregation temporality, span ids, link / exemplar trace and span ids,
	// log bodies of every type (seeded change C04e: a column type that is never
	// re-evaluated keeps its 8-bit index for ever)
	AllCols bool
	// Aligned: several dictionary columns of ONE record reach the 8-bit limit
	// in the same batch with different reuse ratios - a first batch of about
	// 250 ids, each used four times, then batches of fresh ids used once; the
	// wide key "k<id mod KeyMod>" wraps just above 255 (seeded change C12g: a
	// reset of one column and an overflow of another in the same rebuild)
	Aligned bool
	KeyMod  int
	batches int
}

// NewBoundaryRamp builds batches with exactly (or just below) 65,535
// attribute-bearing parents: the largest batch inside the domain of the
// round-trip properties.
func NewBoundaryRamp(t *rapid.T) *Ramp {
	r := &Ramp{T: t, Reuse: 1, Containers: 1, Boundary: true, Fan: 1, KeyMod: 300}
	r.Sizes = []int{65535, 65535, 65534, 40000, 32768}
	r.Fresh = []int{100, 100, 10}
	r.Wide = rapid.IntRange(0, 3).Draw(t, "wide") == 0
	return r
}

// NewFanRamp is the plan in which the RELATED records cross the 16-bit limit
// while the main record stays far below it: 4 or 8 distinct string values per
// item in one attribute table, batches of 9,000-17,000 items, interspersed
// with small and attribute-less batches.
func NewFanRamp(t *rapid.T) *Ramp {
	r := &Ramp{T: t, Reuse: 1, Containers: 1, KeyMod: 300}
	r.Fan = rapid.SampledFrom([]int{4, 8}).Draw(t, "fan")
	r.Sizes = []int{17000, 9000, 300, 3, 17000}
	r.Fresh = []int{100, 100, 50}
	r.PlainPct = 25
	r.Wide = rapid.IntRange(0, 3).Draw(t, "wide") == 0
	return r
}

// NewRamp draws the stream-level plan.
func NewRamp(t *rapid.T, big bool) *Ramp {
	r := &Ramp{T: t, Big: big, Boundary: big}
	r.Reuse = rapid.SampledFrom([]int{1, 1, 2, 5}).Draw(t, "reuse")
	if big && r.Reuse == 5 {
		r.Reuse = 2 // 13,000 ids per batch would need six giant batches to cross
	}
	r.Sizes = []int{0, 1, 40, 130, 200, 300}
	r.Fresh = []int{0, 10, 50, 100, 100}
	if big {
		// mostly fresh ids, so that two batches take a column past 65,535
		// distinct values; the high-reuse regime (reuse 4, fresh 10) stays
		// reachable for resets at the 16-bit limit
		r.Fresh = []int{100, 100, 50, 10}
		// first entries are favoured by rapid: make crossing 65,535 distinct
		// values the common case - cumulatively (60000 + 40000 + ...), because a
		// single batch must stay within the 65,535 parents of the id width
		r.Sizes = []int{60000, 40000, 20000, 300, 1, 0}
	}
	r.Wide = rapid.Bool().Draw(t, "wide")
	r.AllCols = rapid.Bool().Draw(t, "allcols")
	r.Fan = rapid.SampledFrom([]int{1, 1, 2, 4}).Draw(t, "fan")
	if big {
		// a 65,000-item batch with four string attributes per item, event and
		// link needs more Arrow memory than a default consumer may use
		// (70 MiB): it would be refused, correctly (C14)
		r.Fan = 1
	}
	r.PlainPct = rapid.SampledFrom([]int{0, 10, 30}).Draw(t, "plainpct")
	r.Containers = rapid.SampledFrom([]int{1, 1, 3, 300}).Draw(t, "containers")
	if big {
		r.Containers = 1
	}
	r.KeyMod = 300
	if !big && r.pct("aligned", 15) {
		r.Aligned = true
		r.Wide = true
		r.Fan = 1
		r.KeyMod = rapid.SampledFrom([]int{260, 257, 300, 256}).Draw(t, "keymod")
		r.Sizes = []int{300, 130, 40, 10, 300}
		r.Fresh = []int{100}
	}
	return r
}

// pct is an unbiased percentage draw (see Stream.Rare).
func (r *Ramp) pct(label string, p int) bool {
	v := 0
	for i := 0; i < 7; i++ {
		v <<= 1
		if rapid.Bool().Draw(r.T, label) {
			v |= 1
		}
	}
	return v*100/128 < p
}

// ids draws the ids of one batch: n ids, a fraction of them fresh.
func (r *Ramp) ids() []int {
	r.plain = r.PlainPct > 0 && r.pct("plain", r.PlainPct)
	n := rapid.SampledFrom(r.Sizes).Draw(r.T, "rampn")
	fresh := rapid.SampledFrom(r.Fresh).Draw(r.T, "freshpct")
	if r.Aligned {
		r.Reuse = 1
		if r.batches == 0 {
			n, r.Reuse = rapid.SampledFrom([]int{250, 254, 240, 255}).Draw(r.T, "alignedfirst"), 4
		}
	}
	r.batches++
	if r.Big && r.Next == 0 && r.pct("smallfirst", 35) {
		// open the sub-streams with a small batch; the crossing then happens on
		// streams that exist already, from 8-bit indexes when the batch stays
		// below 256 values
		n, fresh = rapid.SampledFrom([]int{3, 200, 300, 1, 100}).Draw(r.T, "smalln"), 100
	} else if r.Big && r.Next > 0 && r.Next <= 300 {
		// ... in ONE jump: the next batch lands exactly on, one below or one
		// above 65,535 distinct values while it holds at most 65,535 itself
		n, fresh = 65535-r.Next+rapid.SampledFrom([]int{1, 1, 0, -1}).Draw(r.T, "jumpedge"), 100
	} else if r.Big && r.Next < 70000 && r.pct("bigcross", 85) {
		// scripted start: crossing 65,535 distinct values is the point of the
		// big plan, leaving it to the size pool made it a 1-in-12 event
		n, fresh = 65000, 100
		if r.Next > 0 && r.Next < 65000 && rapid.Bool().Draw(r.T, "exact") {
			// land exactly on, one below or one above the 16-bit limit
			n = 65535 - r.Next + rapid.IntRange(-1, 1).Draw(r.T, "edge")
		}
	}
	if r.Big {
		// known finding large-value-dictionary: with a 32/64-bit index limit
		// dictionaries never overflow, and ~130,000 distinct ids in every
		// dictionary column of a wide trace stream need more Arrow memory than a
		// default consumer may use (70 MiB). A big stream stays below 90,000
		// distinct ids (the crossing needs 65,536).
		if room := 90000 - r.Next; n*fresh/100 > room {
			if room < 0 {
				room = 0
			}
			if fresh > 0 {
				n = room * 100 / fresh
			}
		}
	}
	limit := 65000
	if r.Boundary {
		limit = 65535
	}
	if max := limit / r.Reuse; n > max {
		n = max // domain: at most 65,535 attribute-bearing parents per batch
	}
	out := make([]int, 0, n)
	if n > 2000 {
		// large batches: avoid one draw per id; a block of fresh ids followed by reused ones
		nf := n * fresh / 100
		for i := 0; i < nf; i++ {
			out = append(out, r.Next)
			r.Next++
		}
		for i := nf; i < n; i++ {
			if r.Next == 0 {
				r.Next = 1
			}
			out = append(out, i%r.Next)
		}
		return out
	}
	for i := 0; i < n; i++ {
		if r.Next == 0 || rapid.IntRange(0, 99).Draw(r.T, "f") < fresh {
			out = append(out, r.Next)
			r.Next++
		} else {
			out = append(out, rapid.IntRange(0, r.Next-1).Draw(r.T, "old"))
		}
	}
	return out
}

func (r *Ramp) attrs(m pcommon.Map, id int) {
	if r.plain {
		return
	}
	s := strconv.Itoa(id)
	m.PutStr("k", "v"+s)
	m.PutInt("i", int64(id))
	for f := 1; f < r.Fan; f++ {
		m.PutStr("k"+strconv.Itoa(f), "v"+strconv.Itoa(f)+"_"+s)
	}
	if r.Wide {
		m.PutStr("k"+strconv.Itoa(id%r.KeyMod), "w")
		m.PutDouble("d", float64(id)+0.5)
		m.PutEmptyBytes("y").FromRaw([]byte(s))
		m.PutEmptySlice("l").AppendEmpty().SetStr(s)
	}
}

// Traces builds a ramp batch of spans (with one event and one link each).
func (r *Ramp) Traces() ptrace.Traces {
	td := ptrace.NewTraces()
	ids := r.ids()
	if len(ids) == 0 {
		return td
	}
	scopes := make([]ptrace.ScopeSpans, 0, r.Containers)
	for c := 0; c < r.Containers; c++ {
		rs := td.ResourceSpans().AppendEmpty()
		rs.Resource().Attributes().PutStr("host", "h"+strconv.Itoa((ids[0]+c)%(r.Containers+2)))
		ss := rs.ScopeSpans().AppendEmpty()
		ss.Scope().SetName("scope")
		if r.Containers > 1 {
			rs.SetSchemaUrl("https://res/" + strconv.Itoa(c))
			ss.Scope().SetName("scope" + strconv.Itoa(c))
			ss.Scope().SetVersion("v" + strconv.Itoa(c))
			ss.SetSchemaUrl("https://scope/" + strconv.Itoa(c))
		}
		scopes = append(scopes, ss)
	}
	for n, id := range ids {
		s := strconv.Itoa(id)
		ss := scopes[n%len(scopes)]
		for x := 0; x < r.Reuse; x++ {
			sp := ss.Spans().AppendEmpty()
			sp.SetName("n" + s)
			sp.TraceState().FromRaw("ts" + s)
			sp.Status().SetMessage("m" + s)
			var tid pcommon.TraceID
			copy(tid[:], "t"+s)
			sp.SetTraceID(tid)
			sp.SetStartTimestamp(pcommon.Timestamp(1000 + id))
			sp.SetEndTimestamp(pcommon.Timestamp(2000 + 2*id))
			var sid pcommon.SpanID
			if r.AllCols {
				sp.SetKind(ptrace.SpanKind(id))
				sp.Status().SetCode(ptrace.StatusCode(id))
				copy(sid[:], "s"+s)
				sp.SetSpanID(sid)
				sp.SetParentSpanID(sid)
			}
			r.attrs(sp.Attributes(), id)
			if r.plain {
				continue
			}
			ev := sp.Events().AppendEmpty()
			ev.SetName("e" + s)
			ev.SetTimestamp(pcommon.Timestamp(1500 + id))
			r.attrs(ev.Attributes(), id)
			if r.Wide {
				lk := sp.Links().AppendEmpty()
				lk.SetTraceID(tid)
				lk.SetSpanID(sid)
				lk.TraceState().FromRaw("lts" + s)
				r.attrs(lk.Attributes(), id)
			}
		}
	}
	return td
}

// Logs builds a ramp batch of log records.
func (r *Ramp) Logs() plog.Logs {
	ld := plog.NewLogs()
	ids := r.ids()
	if len(ids) == 0 {
		return ld
	}
	scopes := make([]plog.ScopeLogs, 0, r.Containers)
	for c := 0; c < r.Containers; c++ {
		rl := ld.ResourceLogs().AppendEmpty()
		rl.Resource().Attributes().PutStr("host", "h"+strconv.Itoa((ids[0]+c)%(r.Containers+2)))
		sl := rl.ScopeLogs().AppendEmpty()
		sl.Scope().SetName("scope")
		if r.Containers > 1 {
			rl.SetSchemaUrl("https://res/" + strconv.Itoa(c))
			sl.Scope().SetName("scope" + strconv.Itoa(c))
			sl.Scope().SetVersion("v" + strconv.Itoa(c))
			sl.SetSchemaUrl("https://scope/" + strconv.Itoa(c))
		}
		scopes = append(scopes, sl)
	}
	for n, id := range ids {
		s := strconv.Itoa(id)
		sl := scopes[n%len(scopes)]
		for x := 0; x < r.Reuse; x++ {
			l := sl.LogRecords().AppendEmpty()
			l.Body().SetStr("body " + s)
			l.SetSeverityText("sev" + s)
			l.SetTimestamp(pcommon.Timestamp(1000 + id))
			var tid pcommon.TraceID
			copy(tid[:], "t"+s)
			l.SetTraceID(tid)
			if r.AllCols {
				l.SetSeverityNumber(plog.SeverityNumber(id))
				var sid pcommon.SpanID
				copy(sid[:], "s"+s)
				l.SetSpanID(sid)
				switch id % 4 {
				case 1:
					l.Body().SetInt(int64(id))
				case 2:
					l.Body().SetEmptyBytes().FromRaw([]byte(s))
				case 3:
					l.Body().SetEmptySlice().AppendEmpty().SetStr(s)
				}
			}
			r.attrs(l.Attributes(), id)
		}
	}
	return ld
}

// Metrics builds a ramp batch of metrics (gauges and histograms with one
// attribute-bearing point each).
func (r *Ramp) Metrics() pmetric.Metrics {
	md := pmetric.NewMetrics()
	ids := r.ids()
	if len(ids) == 0 {
		return md
	}
	scopes := make([]pmetric.ScopeMetrics, 0, r.Containers)
	for c := 0; c < r.Containers; c++ {
		rm := md.ResourceMetrics().AppendEmpty()
		rm.Resource().Attributes().PutStr("host", "h"+strconv.Itoa((ids[0]+c)%(r.Containers+2)))
		sm := rm.ScopeMetrics().AppendEmpty()
		sm.Scope().SetName("scope")
		if r.Containers > 1 {
			rm.SetSchemaUrl("https://res/" + strconv.Itoa(c))
			sm.Scope().SetName("scope" + strconv.Itoa(c))
			sm.Scope().SetVersion("v" + strconv.Itoa(c))
			sm.SetSchemaUrl("https://scope/" + strconv.Itoa(c))
		}
		scopes = append(scopes, sm)
	}
	for n, id := range ids {
		s := strconv.Itoa(id)
		sm := scopes[n%len(scopes)]
		for x := 0; x < r.Reuse; x++ {
			m := sm.Metrics().AppendEmpty()
			m.SetName("n" + s)
			m.SetUnit("u" + s)
			m.SetDescription("d" + s)
			if id%2 == 0 || !r.Wide {
				var dp pmetric.NumberDataPoint
				if r.AllCols {
					sum := m.SetEmptySum()
					sum.SetAggregationTemporality(pmetric.AggregationTemporality(id))
					sum.SetIsMonotonic(id%3 == 0)
					dp = sum.DataPoints().AppendEmpty()
				} else {
					dp = m.SetEmptyGauge().DataPoints().AppendEmpty()
				}
				dp.SetIntValue(int64(id))
				dp.SetTimestamp(pcommon.Timestamp(1000 + id))
				r.attrs(dp.Attributes(), id)
				if (r.Wide || r.AllCols) && !r.plain {
					ex := dp.Exemplars().AppendEmpty()
					ex.SetIntValue(int64(id))
					if r.AllCols {
						var tid pcommon.TraceID
						copy(tid[:], "t"+s)
						ex.SetTraceID(tid)
						var sid pcommon.SpanID
						copy(sid[:], "s"+s)
						ex.SetSpanID(sid)
					}
					r.attrs(ex.FilteredAttributes(), id)
				}
			} else if id%4 == 1 {
				dp := m.SetEmptyHistogram().DataPoints().AppendEmpty()
				dp.SetCount(uint64(id))
				dp.SetSum(float64(id))
				dp.BucketCounts().FromRaw([]uint64{uint64(id), 1})
				dp.ExplicitBounds().FromRaw([]float64{float64(id)})
				r.attrs(dp.Attributes(), id)
				ex := dp.Exemplars().AppendEmpty()
				ex.SetDoubleValue(float64(id))
				r.attrs(ex.FilteredAttributes(), id)
			} else if id%8 == 3 {
				dp := m.SetEmptyExponentialHistogram().DataPoints().AppendEmpty()
				dp.SetCount(uint64(id))
				dp.SetScale(int32(id % 5))
				dp.Positive().SetOffset(int32(id % 7))
				dp.Positive().BucketCounts().FromRaw([]uint64{1, uint64(id)})
				r.attrs(dp.Attributes(), id)
				ex := dp.Exemplars().AppendEmpty()
				ex.SetIntValue(int64(id))
				r.attrs(ex.FilteredAttributes(), id)
			} else {
				dp := m.SetEmptySummary().DataPoints().AppendEmpty()
				dp.SetCount(uint64(id))
				dp.SetSum(float64(id))
				q := dp.QuantileValues().AppendEmpty()
				q.SetQuantile(0.5)
				q.SetValue(float64(id))
				r.attrs(dp.Attributes(), id)
			}
		}
	}
	return md
}
