package gen

import (
	"hash/adler32"
	"hash/crc32"
	"hash/fnv"
	"testing"
)

// TestHashTwinsCollide keeps the HashTwins table honest.
func TestHashTwinsCollide(t *testing.T) {
	fnv1a := func(s string) uint32 { h := fnv.New32a(); _, _ = h.Write([]byte(s)); return h.Sum32() }
	fnv1 := func(s string) uint32 { h := fnv.New32(); _, _ = h.Write([]byte(s)); return h.Sum32() }
	java := func(s string) uint32 {
		var h uint32
		for i := 0; i < len(s); i++ {
			h = 31*h + uint32(s[i])
		}
		return h
	}
	djb2 := func(s string) uint32 {
		h := uint32(5381)
		for i := 0; i < len(s); i++ {
			h = h*33 + uint32(s[i])
		}
		return h
	}
	fs := []func(string) uint32{fnv1a, fnv1, func(s string) uint32 { return crc32.ChecksumIEEE([]byte(s)) }, func(s string) uint32 { return adler32.Checksum([]byte(s)) }, java, djb2}
	for i, p := range HashTwins {
		if p[0] == p[1] || len(p[0]) != len(p[1]) || fs[i](p[0]) != fs[i](p[1]) {
			t.Errorf("pair %d %q: not a collision", i, p)
		}
	}
}
