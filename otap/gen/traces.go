package gen

import (
	"go.opentelemetry.io/collector/pdata/ptrace"
	"pgregory.net/rapid"
)

// Traces generates the next trace batch of the stream.
func (s *Stream) Traces() ptrace.Traces {
	td := ptrace.NewTraces()
	nr := s.N("nres")
	for i := 0; i < nr; i++ {
		rs := td.ResourceSpans().AppendEmpty()
		rs.SetSchemaUrl(s.Resource(rs.Resource()))
		ns := s.N("nscope")
		for j := 0; j < ns; j++ {
			ss := rs.ScopeSpans().AppendEmpty()
			ss.SetSchemaUrl(s.Scope(ss.Scope()))
			np := s.N("nspan")
			for k := 0; k < np; k++ {
				s.Span(ss.Spans().AppendEmpty())
			}
		}
	}
	return td
}

// Span fills one span.
func (s *Stream) Span(sp ptrace.Span) {
	if s.On("span.trace_id") {
		sp.SetTraceID(s.TraceID())
	}
	if s.On("span.span_id") {
		sp.SetSpanID(s.SpanID())
	}
	if s.On("span.parent") {
		sp.SetParentSpanID(s.SpanID())
	}
	sp.TraceState().FromRaw(s.TraceState("span.trace_state"))
	sp.SetName(s.StrOpt("span.name"))
	if s.On("span.kind") {
		sp.SetKind(ptrace.SpanKind(rapid.SampledFrom([]int32{0, 1, 2, 3, 4, 5, 6, 100, -1, 2147483647}).Draw(s.T, "kind")))
	}
	sp.SetStartTimestamp(s.TSOpt("span.start"))
	if s.On("span.end") {
		// the encoder stores end-start as a duration; cover end < start too
		sp.SetEndTimestamp(s.TS())
	}
	sp.SetDroppedAttributesCount(s.U32Opt("span.dac"))
	sp.SetDroppedEventsCount(s.U32Opt("span.dec"))
	sp.SetDroppedLinksCount(s.U32Opt("span.dlc"))
	if s.On("span.status") {
		sp.Status().SetCode(ptrace.StatusCode(rapid.SampledFrom([]int32{0, 1, 2, 3, -1, 2147483647}).Draw(s.T, "stc")))
		sp.Status().SetMessage(s.StrOpt("span.status.msg"))
	}
	s.Attrs(sp.Attributes(), "span.attrs")
	if s.On("span.events") {
		ne := s.N("nev")
		for e := 0; e < ne; e++ {
			ev := sp.Events().AppendEmpty()
			ev.SetName(s.StrOpt("event.name"))
			ev.SetTimestamp(s.TSOpt("event.ts"))
			ev.SetDroppedAttributesCount(s.U32Opt("event.dac"))
			s.Attrs(ev.Attributes(), "event.attrs")
		}
	}
	if s.On("span.links") {
		nl := s.N("nlk")
		for e := 0; e < nl; e++ {
			lk := sp.Links().AppendEmpty()
			if s.On("link.trace_id") {
				lk.SetTraceID(s.TraceID())
			}
			if s.On("link.span_id") {
				lk.SetSpanID(s.SpanID())
			}
			lk.TraceState().FromRaw(s.TraceState("link.trace_state"))
			lk.SetDroppedAttributesCount(s.U32Opt("link.dac"))
			s.Attrs(lk.Attributes(), "link.attrs")
		}
	}
}
