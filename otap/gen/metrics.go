package gen

import (
	"go.opentelemetry.io/collector/pdata/pcommon"
	"go.opentelemetry.io/collector/pdata/pmetric"
	"pgregory.net/rapid"
)

// Metrics generates the next metric batch of the stream.
func (s *Stream) Metrics() pmetric.Metrics {
	md := pmetric.NewMetrics()
	nr := s.N("nres")
	for i := 0; i < nr; i++ {
		rm := md.ResourceMetrics().AppendEmpty()
		rm.SetSchemaUrl(s.Resource(rm.Resource()))
		ns := s.N("nscope")
		for j := 0; j < ns; j++ {
			sm := rm.ScopeMetrics().AppendEmpty()
			sm.SetSchemaUrl(s.Scope(sm.Scope()))
			nm := s.N("nmetric")
			for k := 0; k < nm; k++ {
				s.Metric(sm.Metrics().AppendEmpty())
			}
		}
	}
	return md
}

func (s *Stream) temporality() pmetric.AggregationTemporality {
	if !s.On("metric.temporality") {
		return 0
	}
	return pmetric.AggregationTemporality(rapid.SampledFrom([]int32{0, 1, 2, 3, -1, 2147483647}).Draw(s.T, "at"))
}

// Metric fills one metric of any of the six shapes.
func (s *Stream) Metric(m pmetric.Metric) {
	m.SetName(s.StrOpt("metric.name"))
	m.SetDescription(s.StrOpt("metric.desc"))
	m.SetUnit(s.StrOpt("metric.unit"))
	switch rapid.IntRange(0, 5).Draw(s.T, "mt") {
	case 0:
		// empty metric (no data)
	case 1:
		s.numberPoints(m.SetEmptyGauge().DataPoints(), "gauge")
	case 2:
		sum := m.SetEmptySum()
		sum.SetAggregationTemporality(s.temporality())
		if s.On("metric.monotonic") {
			sum.SetIsMonotonic(rapid.Bool().Draw(s.T, "mono"))
		}
		s.numberPoints(sum.DataPoints(), "sum")
	case 3:
		h := m.SetEmptyHistogram()
		h.SetAggregationTemporality(s.temporality())
		n := s.N("nhdp")
		for i := 0; i < n; i++ {
			s.histogramPoint(h.DataPoints().AppendEmpty())
		}
	case 4:
		h := m.SetEmptyExponentialHistogram()
		h.SetAggregationTemporality(s.temporality())
		n := s.N("nehdp")
		for i := 0; i < n; i++ {
			s.expHistogramPoint(h.DataPoints().AppendEmpty())
		}
	case 5:
		sm := m.SetEmptySummary()
		n := s.N("nsdp")
		for i := 0; i < n; i++ {
			s.summaryPoint(sm.DataPoints().AppendEmpty())
		}
	}
}

func (s *Stream) exemplars(es pmetric.ExemplarSlice, feature string) {
	if !s.On(feature) {
		return
	}
	n := rapid.IntRange(0, 3).Draw(s.T, "nex")
	for i := 0; i < n; i++ {
		e := es.AppendEmpty()
		e.SetTimestamp(s.TSOpt("ex.ts"))
		switch rapid.IntRange(0, 2).Draw(s.T, "exvt") {
		case 0: // no value
		case 1:
			e.SetIntValue(s.I64())
		case 2:
			e.SetDoubleValue(s.F64())
		}
		if s.On("ex.trace_id") {
			e.SetTraceID(s.TraceID())
		}
		if s.On("ex.span_id") {
			e.SetSpanID(s.SpanID())
		}
		s.Attrs(e.FilteredAttributes(), "ex.attrs")
	}
}

func (s *Stream) numberPoints(dps pmetric.NumberDataPointSlice, kind string) {
	n := s.N("ndp")
	for i := 0; i < n; i++ {
		dp := dps.AppendEmpty()
		dp.SetStartTimestamp(s.TSOpt("ndp.start"))
		dp.SetTimestamp(s.TSOpt("ndp.ts"))
		switch rapid.IntRange(0, 2).Draw(s.T, "ndpvt") {
		case 0: // no value
		case 1:
			dp.SetIntValue(s.I64())
		case 2:
			dp.SetDoubleValue(s.F64())
		}
		if s.On("ndp.flags") {
			dp.SetFlags(pmetric.DataPointFlags(rapid.SampledFrom([]uint32{0, 1, 2, 0xffffffff}).Draw(s.T, "ndpfl")))
		}
		s.Attrs(dp.Attributes(), "ndp.attrs")
		s.exemplars(dp.Exemplars(), "ndp.exemplars")
	}
}

// optF64 draws (present?, value) on the zero/absence grid: absent,
// present-zero, present-non-zero.
func (s *Stream) optF64(feature string) (bool, float64) {
	if !s.On(feature) {
		return false, 0
	}
	switch rapid.IntRange(0, 3).Draw(s.T, "optk") {
	case 0:
		return false, 0
	case 1:
		s.Stats["present_zero_optional"]++
		return true, 0
	default:
		return true, s.F64()
	}
}

// u64List draws a bucket list on the grid: empty, all-zero, zero-first, mixed.
func (s *Stream) u64List(feature string) []uint64 {
	if !s.On(feature) {
		return nil
	}
	n := rapid.IntRange(0, 4).Draw(s.T, "lln")
	if s.Rare("longbuckets", 30) {
		// realistic and larger bucket lists (the default SDK histogram has 16
		// buckets; exponential histograms up to 160 and more)
		n = rapid.SampledFrom([]int{17, 16, 160, 300, 15}).Draw(s.T, "llnlong")
		s.Stats["long_bucket_list"]++
	}
	out := make([]uint64, n)
	switch rapid.IntRange(0, 3).Draw(s.T, "llk") {
	case 0: // all zero
		if n > 0 {
			s.Stats["all_zero_list"]++
		}
	case 1: // zero first, then values
		for i := 1; i < n; i++ {
			out[i] = s.U64()
		}
	default:
		for i := 0; i < n; i++ {
			out[i] = s.U64()
		}
	}
	return out
}

func (s *Stream) f64List(feature string) []float64 {
	if !s.On(feature) {
		return nil
	}
	n := rapid.IntRange(0, 4).Draw(s.T, "fln")
	if s.Rare("longbounds", 30) {
		n = rapid.SampledFrom([]int{16, 15, 159, 300, 17}).Draw(s.T, "flnlong")
	}
	out := make([]float64, n)
	switch rapid.IntRange(0, 3).Draw(s.T, "flk") {
	case 0:
		if n > 0 {
			s.Stats["all_zero_list"]++
		}
	case 1:
		for i := 1; i < n; i++ {
			out[i] = s.F64()
		}
	default:
		for i := 0; i < n; i++ {
			out[i] = s.F64()
		}
	}
	return out
}

func (s *Stream) u64Opt(feature string) uint64 {
	if !s.On(feature) {
		return 0
	}
	return s.U64()
}

func (s *Stream) histogramPoint(dp pmetric.HistogramDataPoint) {
	dp.SetStartTimestamp(s.TSOpt("hdp.start"))
	dp.SetTimestamp(s.TSOpt("hdp.ts"))
	dp.SetCount(s.u64Opt("hdp.count"))
	if ok, v := s.optF64("hdp.sum"); ok {
		dp.SetSum(v)
	}
	if ok, v := s.optF64("hdp.min"); ok {
		dp.SetMin(v)
	}
	if ok, v := s.optF64("hdp.max"); ok {
		dp.SetMax(v)
	}
	dp.BucketCounts().FromRaw(s.u64List("hdp.buckets"))
	dp.ExplicitBounds().FromRaw(s.f64List("hdp.bounds"))
	if s.On("hdp.flags") {
		dp.SetFlags(pmetric.DataPointFlags(rapid.SampledFrom([]uint32{0, 1, 2, 256, 0xffffffff}).Draw(s.T, "hdpfl")))
	}
	s.Attrs(dp.Attributes(), "hdp.attrs")
	s.exemplars(dp.Exemplars(), "hdp.exemplars")
}

func (s *Stream) i32Opt(feature string) int32 {
	if !s.On(feature) {
		return 0
	}
	return rapid.SampledFrom([]int32{0, 0, 1, -1, 2, -2, 20, -10, 2147483647, -2147483648}).Draw(s.T, "i32")
}

func (s *Stream) expHistogramPoint(dp pmetric.ExponentialHistogramDataPoint) {
	dp.SetStartTimestamp(s.TSOpt("ehdp.start"))
	dp.SetTimestamp(s.TSOpt("ehdp.ts"))
	dp.SetCount(s.u64Opt("ehdp.count"))
	dp.SetScale(s.i32Opt("ehdp.scale"))
	dp.SetZeroCount(s.u64Opt("ehdp.zero_count"))
	if ok, v := s.optF64("ehdp.sum"); ok {
		dp.SetSum(v)
	}
	if ok, v := s.optF64("ehdp.min"); ok {
		dp.SetMin(v)
	}
	if ok, v := s.optF64("ehdp.max"); ok {
		dp.SetMax(v)
	}
	dp.Positive().SetOffset(s.i32Opt("ehdp.pos.offset"))
	dp.Positive().BucketCounts().FromRaw(s.u64List("ehdp.pos.buckets"))
	dp.Negative().SetOffset(s.i32Opt("ehdp.neg.offset"))
	dp.Negative().BucketCounts().FromRaw(s.u64List("ehdp.neg.buckets"))
	if s.On("ehdp.flags") {
		dp.SetFlags(pmetric.DataPointFlags(rapid.SampledFrom([]uint32{0, 1, 2, 256, 0xffffffff}).Draw(s.T, "ehdpfl")))
	}
	s.Attrs(dp.Attributes(), "ehdp.attrs")
	s.exemplars(dp.Exemplars(), "ehdp.exemplars")
}

func (s *Stream) summaryPoint(dp pmetric.SummaryDataPoint) {
	dp.SetStartTimestamp(s.TSOpt("sdp.start"))
	dp.SetTimestamp(s.TSOpt("sdp.ts"))
	dp.SetCount(s.u64Opt("sdp.count"))
	if s.On("sdp.sum") {
		dp.SetSum(s.F64())
	}
	if s.On("sdp.quantiles") {
		nq := rapid.IntRange(0, 3).Draw(s.T, "nq")
		for q := 0; q < nq; q++ {
			qv := dp.QuantileValues().AppendEmpty()
			switch rapid.IntRange(0, 2).Draw(s.T, "qk") {
			case 0: // (0,0)
			case 1:
				qv.SetQuantile(rapid.SampledFrom([]float64{0, 0.5, 0.99, 1}).Draw(s.T, "qq"))
				qv.SetValue(s.F64())
			default:
				qv.SetQuantile(s.F64())
				qv.SetValue(s.F64())
			}
		}
	}
	if s.On("sdp.flags") {
		dp.SetFlags(pmetric.DataPointFlags(rapid.SampledFrom([]uint32{0, 1, 2, 256, 0xffffffff}).Draw(s.T, "sdpfl")))
	}
	s.Attrs(dp.Attributes(), "sdp.attrs")
}

var _ = pcommon.NewMap
