// Package gen holds the rapid generators for OTLP telemetry streams.
//
// Generators are constructive about the shapes the properties name (DESIGN.md
// §4): hostile string constants, boundary numbers, the zero/absence grid,
// sibling containers that differ only in a value's type or in where a
// delimiter sits, activation schedules that make optional columns appear at
// every stream position, and cardinality ramps that steer dictionary columns
// across 255 / the configured limit / 65,535.
//
// Every random choice goes through a rapid draw.
package gen

import (
	"math"
	"sort"
	"strings"

	"go.opentelemetry.io/collector/pdata/pcommon"
	"pgregory.net/rapid"
)

// Knobs select the input domain.
type Knobs struct {
	MaxDepth int  // maximum nesting depth of list/map values
	Hostile  bool // C08 only: invalid UTF-8, timestamps >= 2^63, nesting beyond MaxDepth
	Siblings bool // confusion-mutated sibling resources/scopes
	Scale    int  // 0: tiny lists (0-3), 1: small (0-8), 2: medium (0-40)
	Deep     bool // allow (rare) deep nesting chains up to MaxDepth
	// NoTrailingNUL: no generated string ends in NUL bytes. Used by histories
	// that interleave signals on one producer: the precondition of the known
	// finding shared-writer-trailing-nul (DESIGN.md §2, D12) is excluded by
	// construction and counted in Stats["excluded_trailing_nul"].
	NoTrailingNUL bool
}

// InDomain are the knobs for the round-trip properties C01-C04.
func InDomain() Knobs { return Knobs{MaxDepth: 16, Siblings: true, Deep: true} }

// Stream carries the state shared by the batches of one generated stream.
type Stream struct {
	T  *rapid.T
	K  Knobs
	NB int // number of batches planned
	B  int // index of the batch being generated

	act       map[string]int
	strs      []string
	resources []resEntry
	scopes    []scopeEntry
	// longLeft: how many very long list/map values (beyond 65,536 and 131,072
	// elements) this stream may still contain; they are expensive, so only a
	// few streams get one
	longLeft int
	// twins: a pair of strings that collide under a 32-bit hash (or nil)
	twins []string

	// Stats are generator-side labels (what was constructed), merged into the
	// evidence labels by the checks.
	Stats map[string]int
}

type resEntry struct {
	res pcommon.Resource
	url string
}

type scopeEntry struct {
	scope pcommon.InstrumentationScope
	url   string
}

// NewStream draws the stream-level plan.
func NewStream(t *rapid.T, k Knobs, nb int) *Stream {
	s := &Stream{T: t, K: k, NB: nb, act: map[string]int{}, Stats: map[string]int{}}
	n := rapid.IntRange(0, 4).Draw(t, "npool")
	for i := 0; i < n; i++ {
		s.strs = append(s.strs, rapid.StringN(0, 8, 24).Draw(t, "poolstr"))
	}
	if s.Rare("longcoll", 40) {
		s.longLeft = 1
	}
	if s.Rare("hashtwins", 80) {
		// both members of a pair of equal-length strings that collide under a
		// well-known 32-bit hash become preferred keys and values of the stream
		s.twins = HashTwins[rapid.IntRange(0, len(HashTwins)-1).Draw(t, "twinpair")]
		s.Stats["keys_colliding_under_a_32bit_hash"]++
	}
	return s
}

// HashTwins are pairs of distinct strings of equal length with the same
// 32-bit digest under FNV-1a, FNV-1, CRC-32 (IEEE), Adler-32, Java's
// 31-polynomial and djb2 (found by brute force, verified in
// TestHashTwinsCollide): the hostile constants for anything that memoises,
// interns or shards by a short digest of a string (seeded changes C17b, C16f).
var HashTwins = [][]string{
	{"key.0539599", "key.0722382"}, // FNV-1a 32
	{"key.0720089", "key.1214000"}, // FNV-1 32
	{"k.uejgtcuo", "k.iiwucoup"},   // CRC-32
	{"key.0000020", "key.0000101"}, // Adler-32
	{"key.Aa", "key.BB"},           // Java String.hashCode
	{"key.ab", "key.bA"},           // djb2
}

// On reports whether an optional feature is active in the current batch. Each
// feature gets an activation batch index on first use; before that index the
// generator keeps the corresponding fields zero/empty, so the column first
// appears in the middle of the stream.
func (s *Stream) On(feature string) bool {
	a, ok := s.act[feature]
	if !ok {
		if s.NB <= 1 || rapid.IntRange(0, 2).Draw(s.T, "act0") == 0 {
			a = 0
		} else {
			a = rapid.IntRange(0, s.NB).Draw(s.T, "act")
		}
		s.act[feature] = a
	}
	return s.B >= a
}

// Rare is an unbiased rare event with probability per1024/1024 (rapid's
// integer generators favour small values, so IntRange(0,n)==k is not 1/(n+1)).
func (s *Stream) Rare(label string, per1024 int) bool {
	v := 0
	for i := 0; i < 10; i++ {
		v <<= 1
		if rapid.Bool().Draw(s.T, label) {
			v |= 1
		}
	}
	return v < per1024
}

// LateActivations is the number of features whose activation index is > 0 and
// has been reached (used for non-triviality labels).
func (s *Stream) LateActivations() int {
	n := 0
	for _, a := range s.act {
		if a > 0 && a < s.NB {
			n++
		}
	}
	return n
}

// HostileStrings are constants chosen by reading the identity-string and
// encoder code: delimiters of the id syntax, printed forms of other types,
// empty and non-ASCII strings.
var HostileStrings = []string{
	"", "a", "b", "1", "0", "true", "false", "1E+00", "1.5", "x,y:z", "|", "{}", "[]", "name:", ",", ":", "\"", "\\",
	"é", "日本", "a\x00b", "|version:", "res:{", "k:v", " ", "NaN", "null", "k", "v",
	"0000000000000001", "AQ==", "a,b:c", "x", "y",
	// values a "helpful" normalisation would rewrite: surrounding whitespace,
	// case, list syntax with optional whitespace, trailing slash
	" a", "a ", "A", "\ta", "a\n", "a=1,b=2", "a=1, b=2", " a=1 ,\tb=2,", "http://x", "HTTP://X/", "Info", "INFO",
}

// traceStates are W3C trace-state shaped values (list members key=value,
// optional whitespace, empty members) next to the equivalent compact forms.
var traceStates = []string{
	"congo=t61rcWkgMzE,rojo=00f067aa0ba902b7", "congo=t61rcWkgMzE, rojo=00f067aa0ba902b7", "vendor1=opaque1 ,\tvendor2=opaque2,",
	"a=1", " a=1", "a=1,", "a=1,,b=2", "a=1 , b=2", "a=1,b=2",
}

// TraceState draws a trace-state string.
func (s *Stream) TraceState(feature string) string {
	if !s.On(feature) {
		return ""
	}
	if rapid.Bool().Draw(s.T, "tsw3c") {
		return rapid.SampledFrom(traceStates).Draw(s.T, "tsv")
	}
	return s.Str()
}

var invalidUTF8 = []string{"\xff", "a\xc3", "\xed\xa0\x80", "\xf8\x88\x80\x80\x80"}

// Str draws a string: mostly from the hostile pool, sometimes from the
// stream's own pool, sometimes fresh.
func (s *Stream) Str() string { return s.nul(s.str0()) }

// nul applies the NoTrailingNUL knob.
func (s *Stream) nul(str string) string {
	if s.K.NoTrailingNUL && strings.HasSuffix(str, "\x00") {
		s.Stats["excluded_trailing_nul"]++
		return strings.TrimRight(str, "\x00")
	}
	return str
}

func (s *Stream) str0() string {
	if len(s.twins) > 0 && rapid.IntRange(0, 7).Draw(s.T, "twinstr") == 0 {
		return s.twins[rapid.IntRange(0, 1).Draw(s.T, "twin")]
	}
	switch k := rapid.IntRange(0, 11).Draw(s.T, "strk"); {
	case k < 7:
		return rapid.SampledFrom(HostileStrings).Draw(s.T, "hs")
	case k < 9 && len(s.strs) > 0:
		return rapid.SampledFrom(s.strs).Draw(s.T, "ps")
	case k == 11 && s.K.Hostile:
		return rapid.SampledFrom(invalidUTF8).Draw(s.T, "bad")
	case k == 10 && s.Rare("longk", 40):
		// long values: beyond 255 and beyond 65,535 bytes
		s.Stats["long_string"]++
		n := rapid.SampledFrom([]int{256, 300, 70000, 65536}).Draw(s.T, "longn")
		return strings.Repeat(rapid.SampledFrom([]string{"x", "ab", "é"}).Draw(s.T, "longc"), n)[:n]
	default:
		return rapid.StringN(0, 6, 18).Draw(s.T, "rs")
	}
}

// StrOpt is Str gated by a feature: empty until the feature is active.
func (s *Stream) StrOpt(feature string) string {
	if !s.On(feature) {
		return ""
	}
	return s.Str()
}

var keyPool = []string{"k", "a", "b", "k2", "", "host", "x,y", "a:b", "K", "é", "k\x00", "id"}

// Key draws an attribute key.
func (s *Stream) Key() string {
	if len(s.twins) > 0 && rapid.IntRange(0, 2).Draw(s.T, "twinkey") == 0 {
		return s.twins[rapid.IntRange(0, 1).Draw(s.T, "twin")]
	}
	if rapid.IntRange(0, 9).Draw(s.T, "keyk") < 9 {
		return s.nul(rapid.SampledFrom(keyPool).Draw(s.T, "key"))
	}
	return s.Str()
}

var i64Pool = []int64{0, 1, -1, 2, 5, 255, 256, 65535, 65536, math.MaxInt32, math.MinInt32, math.MaxInt64, math.MinInt64}

// I64 draws a boundary-biased int64.
func (s *Stream) I64() int64 {
	if rapid.IntRange(0, 4).Draw(s.T, "i64k") < 4 {
		return rapid.SampledFrom(i64Pool).Draw(s.T, "i64")
	}
	return rapid.Int64().Draw(s.T, "i64r")
}

var f64Pool = []float64{0, 1, -1, 0.5, math.Copysign(0, -1), math.NaN(), math.Inf(1), math.Inf(-1), 1e300, math.SmallestNonzeroFloat64, math.MaxFloat64, 1.0000000000000002}

// F64 draws a boundary-biased float64 (including -0.0, NaN with different
// payloads, infinities).
func (s *Stream) F64() float64 {
	switch rapid.IntRange(0, 5).Draw(s.T, "f64k") {
	case 0:
		return rapid.Float64().Draw(s.T, "f64r")
	case 1:
		// NaN with an arbitrary payload
		bits := uint64(0x7ff8000000000000) | uint64(rapid.IntRange(0, 0xffff).Draw(s.T, "nanp"))
		return math.Float64frombits(bits)
	default:
		return rapid.SampledFrom(f64Pool).Draw(s.T, "f64")
	}
}

var u64Pool = []uint64{0, 1, 2, 3, 255, 256, 65535, 65536, math.MaxInt64, math.MaxUint64}

// U64 draws a boundary-biased uint64.
func (s *Stream) U64() uint64 {
	if rapid.IntRange(0, 4).Draw(s.T, "u64k") < 4 {
		return rapid.SampledFrom(u64Pool).Draw(s.T, "u64")
	}
	return rapid.Uint64().Draw(s.T, "u64r")
}

var u32Pool = []uint32{0, 1, 2, 255, 256, 65535, 65536, math.MaxInt32, math.MaxUint32}

// U32 draws a boundary-biased uint32.
func (s *Stream) U32() uint32 {
	if rapid.IntRange(0, 4).Draw(s.T, "u32k") < 4 {
		return rapid.SampledFrom(u32Pool).Draw(s.T, "u32")
	}
	return rapid.Uint32().Draw(s.T, "u32r")
}

// U32Opt is U32 gated by a feature.
func (s *Stream) U32Opt(feature string) uint32 {
	if !s.On(feature) {
		return 0
	}
	return s.U32()
}

var tsPool = []uint64{0, 1, 1000, 1700000000000000000, 1700000000000000001, math.MaxInt64 - 1, math.MaxInt64}
var tsHostile = []uint64{1 << 63, math.MaxUint64, (1 << 63) + 1}

// TS draws a timestamp (at most 2^63-1 unless the hostile domain is on).
func (s *Stream) TS() pcommon.Timestamp {
	k := rapid.IntRange(0, 9).Draw(s.T, "tsk")
	if k == 9 && s.K.Hostile {
		return pcommon.Timestamp(rapid.SampledFrom(tsHostile).Draw(s.T, "tsh"))
	}
	if k < 7 {
		return pcommon.Timestamp(rapid.SampledFrom(tsPool).Draw(s.T, "ts"))
	}
	return pcommon.Timestamp(rapid.Uint64Range(0, math.MaxInt64).Draw(s.T, "tsr"))
}

// TSOpt is TS gated by a feature.
func (s *Stream) TSOpt(feature string) pcommon.Timestamp {
	if !s.On(feature) {
		return 0
	}
	return s.TS()
}

var id16Pool = []string{"", "\x01", "aaaaaaaaaaaaaaaa", "aaaaaaaabbbbbbbb", "aaaaaaaaaaaaaaab", "\x00\x00\x00\x00\x00\x00\x00\x00\x00\x00\x00\x00\x00\x00\x00\x01", "\xff\xff\xff\xff\xff\xff\xff\xff\xff\xff\xff\xff\xff\xff\xff\xff", "bbbbbbbbbbbbbbbb"}
var id8Pool = []string{"", "\x01", "bbbbbbbb", "\x00\x00\x00\x00\x00\x00\x00\x01", "\xff\xff\xff\xff\xff\xff\xff\xff", "cccccccc"}

// TraceID draws a trace id (all-zero, repeated and random values).
func (s *Stream) TraceID() (r pcommon.TraceID) {
	if rapid.IntRange(0, 5).Draw(s.T, "tidk") < 5 {
		copy(r[:], rapid.SampledFrom(id16Pool).Draw(s.T, "tid"))
		return
	}
	copy(r[:], rapid.SliceOfN(rapid.Byte(), 16, 16).Draw(s.T, "tidr"))
	return
}

// SpanID draws a span id.
func (s *Stream) SpanID() (r pcommon.SpanID) {
	if rapid.IntRange(0, 5).Draw(s.T, "sidk") < 5 {
		copy(r[:], rapid.SampledFrom(id8Pool).Draw(s.T, "sid"))
		return
	}
	copy(r[:], rapid.SliceOfN(rapid.Byte(), 8, 8).Draw(s.T, "sidr"))
	return
}

// N draws a list length according to the scale knob, biased to small values.
func (s *Stream) N(label string) int {
	hi := 3
	switch s.K.Scale {
	case 1:
		hi = 8
	case 2:
		hi = 40
	}
	if rapid.IntRange(0, 3).Draw(s.T, "nk") == 0 {
		return rapid.IntRange(0, hi).Draw(s.T, label)
	}
	return rapid.IntRange(0, 3).Draw(s.T, label)
}

// Val fills an AnyValue of any type.
func (s *Stream) Val(v pcommon.Value, depth int) {
	max := 7
	if depth >= 3 {
		max = 5 // stop recursing randomly; deep chains are built by deepChain
	}
	switch rapid.IntRange(0, max).Draw(s.T, "vt") {
	case 0:
		// unset
	case 1:
		v.SetStr(s.Str())
	case 2:
		v.SetInt(s.I64())
	case 3:
		v.SetDouble(s.F64())
	case 4:
		v.SetBool(rapid.Bool().Draw(s.T, "vb"))
	case 5:
		v.SetEmptyBytes().FromRaw(rapid.SliceOfN(rapid.Byte(), 0, 4).Draw(s.T, "vy"))
	case 6:
		if s.K.Deep && depth == 0 && rapid.IntRange(0, 15).Draw(s.T, "deepk") == 0 {
			s.deepChain(v)
			return
		}
		sl := v.SetEmptySlice()
		if depth == 0 && s.longLeft > 0 && s.Rare("longlist", 200) {
			// a list value with very many elements: the domain bounds the
			// nesting depth of list/map values, not their length
			s.longLeft--
			s.Stats["long_list_value"]++
			n := rapid.SampledFrom([]int{131073, 131072, 200000, 65536, 70000}).Draw(s.T, "longn")
			sl.EnsureCapacity(n)
			for i := 0; i < n; i++ {
				sl.AppendEmpty().SetInt(int64(i % 7))
			}
			return
		}
		n := rapid.IntRange(0, 3).Draw(s.T, "vln")
		for i := 0; i < n; i++ {
			s.Val(sl.AppendEmpty(), depth+1)
		}
	case 7:
		m := v.SetEmptyMap()
		// (very long MAP values are not generated: the decoder rebuilds a map
		// with one linear Put per entry, a minute per 131,073-entry map; they
		// are covered by saved cases replayed in the thorough tier)
		n := rapid.IntRange(0, 3).Draw(s.T, "vmn")
		for i := 0; i < n; i++ {
			s.Val(m.PutEmpty(s.Key()), depth+1)
		}
	}
}

// deepChain nests lists and maps alternately up to MaxDepth (or, in the
// hostile domain, beyond it).
func (s *Stream) deepChain(v pcommon.Value) {
	d := s.K.MaxDepth
	if d <= 0 {
		d = 16
	}
	depth := rapid.IntRange(4, d).Draw(s.T, "deepd")
	if s.K.Hostile && rapid.Bool().Draw(s.T, "deeper") {
		depth = rapid.IntRange(d, 3*d).Draw(s.T, "deepdd")
	}
	s.Stats["deep_chain"]++
	cur := v
	for i := 1; i < depth; i++ {
		if i%2 == 1 {
			cur = cur.SetEmptySlice().AppendEmpty()
		} else {
			cur = cur.SetEmptyMap().PutEmpty("n")
		}
	}
	cur.SetStr("leaf")
}

// Attrs fills an attribute map with 0-4 unique keys (pdata Put* upserts, so
// keys are unique by construction). The feature gates the whole map.
func (s *Stream) Attrs(m pcommon.Map, feature string) {
	if !s.On(feature) {
		return
	}
	n := rapid.IntRange(0, 4).Draw(s.T, "na")
	if s.K.Scale >= 1 && rapid.IntRange(0, 7).Draw(s.T, "nak") == 0 {
		n = rapid.IntRange(0, 12).Draw(s.T, "na2")
	}
	if s.Rare("widek", 4) {
		// a map with more than 255 distinct keys
		s.Stats["wide_map"]++
		for i := 0; i < 300; i++ {
			m.PutInt("wk"+itoa(int64(i)), int64(i%3))
		}
	}
	for i := 0; i < n; i++ {
		s.Val(m.PutEmpty(s.Key()), 0)
	}
}

// confuse rewrites one attribute so that its printed form stays the same (or
// nearly the same) while its type or the position of a delimiter changes.
func (s *Stream) confuse(m pcommon.Map) {
	var keys []string
	m.Range(func(k string, v pcommon.Value) bool { keys = append(keys, k); return true })
	if len(keys) == 0 {
		m.PutStr(rapid.SampledFrom([]string{"k", "a"}).Draw(s.T, "ck0"), rapid.SampledFrom([]string{"", "1", "x"}).Draw(s.T, "cv0"))
		return
	}
	sort.Strings(keys)
	k := rapid.SampledFrom(keys).Draw(s.T, "ck")
	v, _ := m.Get(k)
	s.Stats["confusion_mutations"]++
	if rapid.IntRange(0, 4).Draw(s.T, "cnest") == 0 {
		// difference hidden inside a nested value: an extra entry with an
		// unset value or an empty key in a nested map, an extra unset element
		// in a nested list, or a changed nested leaf (top-level such entries
		// are dropped by the documented normalisation, nested ones are kept)
		s.confuseNested(v, 0)
		s.Stats["nested_mutations"]++
		return
	}
	if rapid.IntRange(0, 3).Draw(s.T, "cnear") == 0 {
		// near-identical value of the SAME type: differs below the precision
		// or in a way a lossy rendering would hide
		switch v.Type() {
		case pcommon.ValueTypeDouble:
			d := v.Double()
			switch rapid.IntRange(0, 2).Draw(s.T, "cnd") {
			case 0:
				v.SetDouble(math.Nextafter(d, math.Inf(1)))
			case 1:
				v.SetDouble(float64(float32(d)))
			default:
				v.SetDouble(d * (1 + 1e-12))
			}
		case pcommon.ValueTypeInt:
			i := v.Int()
			switch rapid.IntRange(0, 2).Draw(s.T, "cni") {
			case 0:
				v.SetInt(int64(float64(i)))
			case 1:
				v.SetInt(i ^ 1)
			default:
				v.SetInt(-i)
			}
		case pcommon.ValueTypeStr:
			str := v.Str()
			switch rapid.IntRange(0, 3).Draw(s.T, "cns") {
			case 0:
				v.SetStr(str + " ")
			case 1:
				v.SetStr(s.nul(str + "\x00"))
			case 2:
				v.SetStr(strings.ToUpper(str))
			default:
				v.SetStr(" " + str)
			}
		case pcommon.ValueTypeBytes:
			v.SetEmptyBytes().FromRaw(append(v.Bytes().AsRaw(), 0))
		case pcommon.ValueTypeBool:
			v.SetBool(!v.Bool())
		default:
			v.SetDouble(0.30000000000000004)
		}
		s.Stats["near_identical_mutations"]++
		return
	}
	switch rapid.IntRange(0, 9).Draw(s.T, "cm") {
	case 0: // same printed form, other type
		switch v.Type() {
		case pcommon.ValueTypeStr:
			str := v.Str()
			switch str {
			case "true":
				v.SetBool(true)
			case "false":
				v.SetBool(false)
			case "1":
				v.SetInt(1)
			case "0":
				v.SetInt(0)
			case "":
				v2 := m.PutEmpty(k)
				_ = v2
			default:
				v.SetEmptyBytes().FromRaw([]byte(str))
			}
		case pcommon.ValueTypeInt:
			if rapid.Bool().Draw(s.T, "cid") {
				v.SetDouble(float64(v.Int()))
			} else {
				i := v.Int()
				v.SetStr(itoa(i))
			}
		case pcommon.ValueTypeBool:
			if v.Bool() {
				v.SetStr("true")
			} else {
				v.SetStr("false")
			}
		case pcommon.ValueTypeDouble:
			v.SetInt(int64(v.Double()))
		default:
			v.SetStr("")
		}
	case 1:
		v.SetStr("1")
	case 2:
		v.SetInt(1)
	case 3:
		v.SetDouble(1)
	case 4:
		v.SetStr("true")
	case 5:
		v.SetBool(true)
	case 6:
		v.SetStr("")
	case 7: // move a delimiter between key and value: {k:"x,b:y"} vs {k:"x", b:"y"}
		if v.Type() == pcommon.ValueTypeStr {
			if i := strings.IndexAny(v.Str(), ",:|"); i >= 0 && i+1 < len(v.Str()) {
				rest := v.Str()[i+1:]
				head := v.Str()[:i]
				v.SetStr(head)
				if j := strings.IndexByte(rest, ':'); j > 0 {
					m.PutStr(rest[:j], rest[j+1:])
				} else {
					m.PutStr(rest, "")
				}
				return
			}
		}
		m.PutStr(k, "x,b:y")
	case 8: // empty bytes vs empty string vs unset
		switch rapid.IntRange(0, 2).Draw(s.T, "ce") {
		case 0:
			m.PutEmpty(k)
		case 1:
			m.PutEmptyBytes(k)
		default:
			m.PutStr(k, "")
		}
	case 9: // same content under a renamed key
		nv := m.PutEmpty(k + rapid.SampledFrom([]string{"", ":", ",", " "}).Draw(s.T, "cks"))
		v2, _ := m.Get(k)
		if nv != v2 {
			v2.CopyTo(nv)
			m.Remove(k)
		}
	}
}

// confuseNested changes a value somewhere below its top level.
func (s *Stream) confuseNested(v pcommon.Value, depth int) {
	switch v.Type() {
	case pcommon.ValueTypeMap:
		m := v.Map()
		var keys []string
		m.Range(func(k string, _ pcommon.Value) bool { keys = append(keys, k); return true })
		sort.Strings(keys)
		if len(keys) > 0 && depth < 3 && rapid.IntRange(0, 2).Draw(s.T, "cndesc") == 0 {
			c, _ := m.Get(rapid.SampledFrom(keys).Draw(s.T, "cnkey"))
			s.confuseNested(c, depth+1)
			return
		}
		switch rapid.IntRange(0, 4).Draw(s.T, "cnm") {
		case 0:
			m.PutEmpty("extra") // unset value
		case 1:
			m.PutStr("", "x") // empty key
		case 2:
			m.PutEmpty("") // empty key, unset value
		case 3:
			if len(keys) > 0 {
				m.Remove(keys[len(keys)-1])
			} else {
				m.PutBool("b", false)
			}
		default:
			m.PutInt("extra", 0)
		}
	case pcommon.ValueTypeSlice:
		sl := v.Slice()
		if sl.Len() > 0 && depth < 3 && rapid.IntRange(0, 2).Draw(s.T, "cnldesc") == 0 {
			s.confuseNested(sl.At(rapid.IntRange(0, sl.Len()-1).Draw(s.T, "cnidx")), depth+1)
			return
		}
		switch rapid.IntRange(0, 2).Draw(s.T, "cnl") {
		case 0:
			sl.AppendEmpty() // unset element
		case 1:
			sl.AppendEmpty().SetStr("")
		default:
			sl.AppendEmpty().SetInt(0)
		}
	default:
		// wrap the scalar: {"n": old} with an extra unset entry, or [old]
		old := pcommon.NewValueEmpty()
		v.CopyTo(old)
		if rapid.Bool().Draw(s.T, "cnwrap") {
			m := v.SetEmptyMap()
			old.CopyTo(m.PutEmpty("n"))
			if rapid.Bool().Draw(s.T, "cnwrapx") {
				m.PutEmpty("u")
			}
		} else {
			old.CopyTo(v.SetEmptySlice().AppendEmpty())
		}
	}
}

func itoa(i int64) string {
	neg := i < 0
	var u uint64
	if neg {
		u = uint64(-i)
	} else {
		u = uint64(i)
	}
	var b [24]byte
	p := len(b)
	if u == 0 {
		p--
		b[p] = '0'
	}
	for u > 0 {
		p--
		b[p] = byte('0' + u%10)
		u /= 10
	}
	if neg {
		p--
		b[p] = '-'
	}
	return string(b[p:])
}

var urlPool = []string{"", "u", "https://opentelemetry.io/schemas/1.21.0", "v"}

// Resource fills dst from the stream's resource pool: an exact copy of an
// earlier resource, a confusion-mutated sibling of one, or a fresh one.
func (s *Stream) Resource(dst pcommon.Resource) (schemaURL string) {
	mode := rapid.IntRange(0, 9).Draw(s.T, "resmode")
	if len(s.resources) > 0 && mode < 6 {
		e := s.resources[rapid.IntRange(0, len(s.resources)-1).Draw(s.T, "resfrom")]
		e.res.CopyTo(dst)
		schemaURL = e.url
		if mode < 3 || !s.K.Siblings {
			s.Stats["resource_copies"]++
			return schemaURL
		}
		s.Stats["resource_siblings"]++
		switch rapid.IntRange(0, 5).Draw(s.T, "ressib") {
		case 0:
			schemaURL = rapid.SampledFrom(urlPool).Draw(s.T, "resurl2")
		case 1:
			dst.SetDroppedAttributesCount(s.U32())
		default:
			s.confuse(dst.Attributes())
		}
	} else {
		s.Attrs(dst.Attributes(), "res.attrs")
		dst.SetDroppedAttributesCount(s.U32Opt("res.dac"))
		if s.On("res.url") {
			schemaURL = rapid.SampledFrom(urlPool).Draw(s.T, "resurl")
		}
	}
	if len(s.resources) < 6 {
		r := pcommon.NewResource()
		dst.CopyTo(r)
		s.resources = append(s.resources, resEntry{res: r, url: schemaURL})
	}
	return schemaURL
}

// Scope fills dst from the stream's scope pool (the same scope is therefore
// placed under different resources).
func (s *Stream) Scope(dst pcommon.InstrumentationScope) (schemaURL string) {
	mode := rapid.IntRange(0, 9).Draw(s.T, "scmode")
	if len(s.scopes) > 0 && mode < 6 {
		e := s.scopes[rapid.IntRange(0, len(s.scopes)-1).Draw(s.T, "scfrom")]
		e.scope.CopyTo(dst)
		schemaURL = e.url
		if mode < 3 || !s.K.Siblings {
			s.Stats["scope_copies"]++
			return schemaURL
		}
		s.Stats["scope_siblings"]++
		switch rapid.IntRange(0, 6).Draw(s.T, "scsib") {
		case 0:
			schemaURL = rapid.SampledFrom(urlPool).Draw(s.T, "scurl2")
		case 1:
			dst.SetDroppedAttributesCount(s.U32())
		case 2: // move text between name and version
			n, v := dst.Name(), dst.Version()
			switch rapid.IntRange(0, 2).Draw(s.T, "scnv") {
			case 0:
				dst.SetName(n + "|version:" + v)
				dst.SetVersion("")
			case 1:
				dst.SetName(n + v)
				dst.SetVersion("")
			default:
				dst.SetName("")
				dst.SetVersion(n + v)
			}
		case 3:
			dst.SetVersion(s.Str())
		default:
			s.confuse(dst.Attributes())
		}
	} else {
		dst.SetName(s.StrOpt("scope.name"))
		dst.SetVersion(s.StrOpt("scope.version"))
		s.Attrs(dst.Attributes(), "scope.attrs")
		dst.SetDroppedAttributesCount(s.U32Opt("scope.dac"))
		if s.On("scope.url") {
			schemaURL = rapid.SampledFrom(urlPool).Draw(s.T, "scurl")
		}
	}
	if len(s.scopes) < 6 {
		sc := pcommon.NewInstrumentationScope()
		dst.CopyTo(sc)
		s.scopes = append(s.scopes, scopeEntry{scope: sc, url: schemaURL})
	}
	return schemaURL
}
