package otap

import (
	"encoding/json"
	"fmt"
	"os"
	"testing"

	"go.opentelemetry.io/collector/pdata/plog"
	"go.opentelemetry.io/collector/pdata/pmetric"
	"go.opentelemetry.io/collector/pdata/ptrace"

	"verif/kit"
)

// TestDumpReplay prints the case files named by VERIF_REPLAY as OTLP JSON
// (debugging aid: ./check dump <file>).
func TestDumpReplay(t *testing.T) {
	p := os.Getenv("VERIF_REPLAY")
	if p == "" {
		t.Skip("VERIF_REPLAY not set")
	}
	b, err := os.ReadFile(p)
	if err != nil {
		t.Fatal(err)
	}
	var rp kit.Replay
	if err := json.Unmarshal(b, &rp); err != nil {
		t.Fatal(err)
	}
	var c struct {
		Options Options `json:"options"`
		Batches []Batch `json:"batches"`
	}
	if err := json.Unmarshal(rp.Case, &c); err != nil {
		t.Fatal(err)
	}
	fmt.Printf("property %s\nmessage: %s\noptions: %s\n", rp.Property, rp.Message, c.Options)
	for i, bt := range c.Batches {
		in, err := bt.Decode()
		if err != nil {
			t.Fatal(err)
		}
		var js []byte
		switch bt.Signal {
		case Traces:
			js, _ = (&ptrace.JSONMarshaler{}).MarshalTraces(in.Traces)
		case Logs:
			js, _ = (&plog.JSONMarshaler{}).MarshalLogs(in.Logs)
		default:
			js, _ = (&pmetric.JSONMarshaler{}).MarshalMetrics(in.Metrics)
		}
		fmt.Printf("--- batch %d %s (%d items)\n%s\n", i, bt.Signal, in.Items(), js)
	}
}
