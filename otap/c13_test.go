package otap

import (
	"fmt"
	"strings"
	"testing"

	"pgregory.net/rapid"

	"verif/kit"
	"verif/otap/gen"
)

// dictBoundVerdict checks, on the producer output alone, that no dictionary
// transmitted on the stream holds more entries than the configured limit or
// than its index type can address.
func dictBoundVerdict(o Options, res *StreamResult) (string, *Mirror) {
	m := NewMirror()
	defer m.Close()
	limit := o.DictLimit()
	for i, b := range res.Batches {
		if b.BAR == nil {
			continue
		}
		if msg := m.Feed(b.Signal, b.BAR, -1); msg != "" {
			// framing is C12's verdict; without a readable stream C13 has
			// nothing to measure
			return "", m
		}
		for _, d := range m.Dicts {
			if o.Dict == "none" {
				return fmt.Sprintf("batch %d: column %s.%s is dictionary encoded (%d entries) although dictionaries are disabled", i, d.Payload, d.Column, d.Len), m
			}
			if uint64(d.Len) > limit {
				return fmt.Sprintf("batch %d: dictionary of %s.%s holds %d entries, configured limit is %d", i, d.Payload, d.Column, d.Len, limit), m
			}
			if d.IndexBits > 0 && d.IndexBits < 63 && uint64(d.Len) > uint64(1)<<uint(d.IndexBits) {
				return fmt.Sprintf("batch %d: dictionary of %s.%s holds %d entries, more than its uint%d index can address", i, d.Payload, d.Column, d.Len, d.IndexBits), m
			}
		}
	}
	return "", m
}

func c13Verdict(c *StreamCase) string {
	res, err := RunStream(c, RunConfig{KeepBAR: true})
	if err != nil {
		return "harness: " + err.Error()
	}
	msg, _ := dictBoundVerdict(c.Options, res)
	return msg
}

func init() { streamVerdicts["C13"] = c13Verdict }

// TestC13: unbounded-cardinality columns fed for many batches never make a
// transmitted dictionary outgrow the limit.
func TestC13(t *testing.T) {
	rec := kit.Get("C13")
	runRapid(t, func(t *rapid.T) {
		o := genOptions(t, rec)
		genExtraOptions(t, &o, false)
		big := pct(t, "big", map[bool]int{true: 8, false: 5}[thorough()])
		if big {
			// crossing 65,535 needs the default / u16 limit (or wider) to be interesting
			o.Dict = rapid.SampledFrom([]string{"", "u32", "u16", "none"}).Draw(t, "bigdict")
			if pct(t, "bigreset", 50) {
				// the reset regime at the 16-bit limit: a threshold above 1
				// resets at every crossing whatever the reuse ratio is
				v := rapid.SampledFrom([]float64{5, 1.5}).Draw(t, "bigthr")
				o.ResetThreshold = &v
			}
		}
		minb, maxb := 3, 40
		if big {
			maxb = 6
		}
		long := !big && thorough() && pct(t, "long", 2)
		if long {
			// "arbitrarily long streams": 100-250 batches whose id universe keeps growing
			minb, maxb = 100, 250
		}
		c, _ := genOptionHistory(t, historyPlan{MinBatches: minb, MaxBatches: maxb, Big: big, Knobs: gen.InDomain()})
		c.Options = o
		res, err := RunStream(c, RunConfig{KeepBAR: true})
		if err != nil {
			t.Fatalf("harness: %v", err)
		}
		msg, m := dictBoundVerdict(o, res)
		labels := append(optionLabels(o), transitionLabels(res)...)
		maxd := 0
		for _, n := range m.MaxDict {
			if n > maxd {
				maxd = n
			}
		}
		labels = append(labels, "max_dictionary="+bucket(maxd), "batches="+bucket(len(c.Batches)))
		if big {
			labels = append(labels, "history_crossing_65535")
		}
		if long {
			labels = append(labels, "long_stream_100_to_250_batches")
		}
		over := res.Events.Total("overflow") + res.Events.Total("reset")
		var shapes []string
		for _, b := range res.Batches {
			shapes = append(shapes, b.Signal[:1]+bucket(b.Items)+strings.Join(b.NewEvents, "+"))
		}
		rec.Case(over > 0, o.String()+"#"+strings.Join(shapes, "|"), labels, func() any {
			return map[string]any{"options": o.String(), "batches": len(c.Batches), "largest_dictionary": maxd, "overflows": res.Events.Total("overflow"), "resets": res.Events.Total("reset"), "upgrades": res.Events.Total("upgrade")}
		})
		if msg != "" {
			rec.Fail(t, c, "options %s: %s", o, msg)
		}
	})
}
