package otap

import (
	"context"
	"encoding/json"
	"errors"
	"fmt"
	"sort"
	"testing"

	"go.opentelemetry.io/otel/metric"
	"go.opentelemetry.io/otel/metric/noop"
	"google.golang.org/protobuf/proto"
	"pgregory.net/rapid"

	colarspb "github.com/open-telemetry/otel-arrow/api/experimental/arrow/v1"
	"github.com/open-telemetry/otel-arrow/pkg/otel/arrow_record"

	"verif/kit"
	"verif/otap/canon"
	"verif/otap/gen"
)

// recordingProvider is a MeterProvider that keeps the running sum and the peak
// of the arrow_memory_inuse up-down counter.
type recordingProvider struct {
	noop.MeterProvider
	inuse, peak int64
	adds        int
}
type recordingMeter struct {
	noop.Meter
	p *recordingProvider
}
type recordingCounter struct {
	noop.Int64UpDownCounter
	p *recordingProvider
}

func (p *recordingProvider) Meter(string, ...metric.MeterOption) metric.Meter {
	return recordingMeter{p: p}
}
func (m recordingMeter) Int64UpDownCounter(name string, _ ...metric.Int64UpDownCounterOption) (metric.Int64UpDownCounter, error) {
	if name == "arrow_memory_inuse" {
		return recordingCounter{p: m.p}, nil
	}
	return noop.Int64UpDownCounter{}, nil
}
func (c recordingCounter) Add(_ context.Context, v int64, _ ...metric.AddOption) {
	c.p.inuse += v
	c.p.adds++
	if c.p.inuse > c.p.peak {
		c.p.peak = c.p.inuse
	}
}

// LimitCase is a stream history plus the consumer memory limits to try.
type LimitCase struct {
	Stream StreamCase `json:"stream"`
	Limits []uint64   `json:"limits"`
}

type encodedBatch struct {
	signal string
	bar    *colarspb.BatchArrowRecords
	want   []string
}

// encodeAll runs the producer once; the same bytes are then given to one fresh
// consumer per limit.
func encodeAll(c *StreamCase) ([]encodedBatch, error) {
	res, err := RunStream(c, RunConfig{KeepBAR: true})
	if err != nil {
		return nil, err
	}
	var out []encodedBatch
	for _, b := range res.Batches {
		if b.BAR == nil {
			break // refused / panicked batches are C08's business; stop the stream there
		}
		out = append(out, encodedBatch{signal: b.Signal, bar: b.BAR, want: b.Want})
	}
	return out, nil
}

type limitRun struct {
	firstRefused int // index of the first refused batch, len(batches) if none
	peak         int64
	msg          string
	cut          bool // batches were left unsent after the refusal
}

// runWithLimit decodes the stream with a consumer limited to `limit` bytes.
func runWithLimit(batches []encodedBatch, limit uint64, reference [][]string) limitRun {
	prov := &recordingProvider{}
	cons := arrow_record.NewConsumer(arrow_record.WithMemoryLimit(limit), arrow_record.WithMeterProvider(prov))
	r := limitRun{firstRefused: len(batches)}
	for i, b := range batches {
		d := Decode(cons, b.signal, proto.Clone(b.bar).(*colarspb.BatchArrowRecords))
		if d.Panic != nil {
			r.msg = fmt.Sprintf("limit %d, batch %d: consumer panicked: %s", limit, i, d.Panic)
			break
		}
		if prov.peak > int64(limit) {
			r.msg = fmt.Sprintf("limit %d, batch %d: arrow_memory_inuse reported %d bytes in use, above the limit", limit, i, prov.peak)
			break
		}
		if d.Err != nil {
			if !errors.Is(d.Err, arrow_record.ErrConsumerMemoryLimit) {
				r.msg = fmt.Sprintf("limit %d, batch %d: refused with an error that is not recognisable as the memory-limit error: %v", limit, i, d.Err)
			}
			r.firstRefused = i
			if i+1 < len(batches) {
				r.cut = true
			}
			break // reader state is undefined after a refusal (known finding continue-after-refusal)
		}
		if diff := canon.Diff(reference[i], d.Canon); diff != "" {
			r.msg = fmt.Sprintf("limit %d, batch %d: decoded telemetry differs from the unlimited reference: %s", limit, i, diff)
			break
		}
	}
	if pn := catch(func() { _ = cons.Close() }); pn != nil && r.msg == "" {
		r.msg = fmt.Sprintf("limit %d: Consumer.Close panicked: %s", limit, pn)
	}
	r.peak = prov.peak
	return r
}

// limitVerdict is the C14 oracle over a (stream, limits) case.
func limitVerdict(lc *LimitCase) (msg string, runs map[uint64]limitRun, nb int) {
	batches, err := encodeAll(&lc.Stream)
	if err != nil {
		return "harness: " + err.Error(), nil, 0
	}
	// reference: default consumer (70 MiB)
	ref := arrow_record.NewConsumer()
	var reference [][]string
	for i, b := range batches {
		d := Decode(ref, b.signal, proto.Clone(b.bar).(*colarspb.BatchArrowRecords))
		if d.Panic != nil {
			return fmt.Sprintf("limit %d (the default), batch %d: consumer panicked: %s", uint64(70<<20), i, d.Panic), nil, len(batches)
		}
		if d.Err != nil {
			// the default limit is a limit like any other: a refusal must be
			// recognisable as the memory-limit error (then the stream simply is
			// too large for the reference and is cut here)
			if !errors.Is(d.Err, arrow_record.ErrConsumerMemoryLimit) {
				return fmt.Sprintf("limit %d (the default), batch %d: refused with an error that is not recognisable as the memory-limit error: %v", uint64(70<<20), i, d.Err), nil, len(batches)
			}
			batches = batches[:i]
			break
		}
		reference = append(reference, d.Canon)
	}
	_ = catch(func() { _ = ref.Close() })
	limits := append([]uint64(nil), lc.Limits...)
	sort.Slice(limits, func(i, j int) bool { return limits[i] < limits[j] })
	runs = map[uint64]limitRun{}
	prevFirst := -1
	var prevLimit uint64
	for _, l := range limits {
		r := runWithLimit(batches, l, reference)
		runs[l] = r
		if r.msg != "" {
			return r.msg, runs, len(batches)
		}
		if r.firstRefused < prevFirst {
			return fmt.Sprintf("raising the limit from %d to %d turned decodable batch %d into a refused one (first refusal moved from %d to %d)", prevLimit, l, r.firstRefused, prevFirst, r.firstRefused), runs, len(batches)
		}
		prevFirst, prevLimit = r.firstRefused, l
	}
	return "", runs, len(batches)
}

var limitGrid = []uint64{0, 16, 64, 256, 1 << 10, 4 << 10, 16 << 10, 64 << 10, 256 << 10, 1 << 20, 4 << 20, 16 << 20, 32 << 20, 48 << 20, 70 << 20}

// TestC14: a consumer with a memory limit decodes completely or refuses with
// the memory-limit error; reported in-use never exceeds the limit; raising the
// limit never hurts.
func TestC14(t *testing.T) {
	rec := kit.Get("C14")
	runRapid(t, func(t *rapid.T) {
		o := genOptions(t, rec)
		c, _ := genOptionHistory(t, historyPlan{MinBatches: 1, MaxBatches: 6, Knobs: gen.InDomain()})
		c.Options = o
		bigValue := 0
		if pct(t, "bigvalue", 2) {
			// one value that needs a single Arrow buffer of 1 ... 33 MiB (power-
			// of-two boundaries), somewhere in the stream: "all batches and all
			// limits up to the default 70 MiB"
			bigValue = rapid.SampledFrom([]int{33 << 20, 32 << 20, 32<<20 - 64, 16 << 20, 1 << 20}).Draw(t, "bigvaluen")
			at := rapid.IntRange(0, len(c.Batches)).Draw(t, "bigvalueat")
			sig := rapid.SampledFrom([]string{Logs, Traces, Metrics}).Draw(t, "bigvaluesig")
			if len(c.Batches) > 0 {
				sig = c.Batches[0].Signal
			}
			bb := Batch{Signal: sig, Synth: fmt.Sprintf("bigvalue/%d", bigValue)}
			c.Batches = append(c.Batches[:at:at], append([]Batch{bb}, c.Batches[at:]...)...)
		}
		lc := &LimitCase{Stream: *c}
		// limits: the geometric grid plus values around the need measured on
		// an unlimited consumer
		if fuzzNoExpensive {
			// (one execution under the native fuzzer has 10 s: half the grid)
			for i := 0; i < len(limitGrid); i += 2 {
				lc.Limits = append(lc.Limits, limitGrid[i])
			}
		} else {
			lc.Limits = append(lc.Limits, limitGrid...)
		}
		probe, _, _ := measureNeed(c)
		if fuzzNoExpensive && len(probe) > 1 {
			// (under the native fuzzer one execution has 10 s: fewer limits)
			probe = probe[len(probe)-1:]
		}
		for _, n := range probe {
			for _, d := range []int64{-64, -1, 0, 1, 64} {
				if v := n + d; v >= 0 {
					lc.Limits = append(lc.Limits, uint64(v))
				}
			}
			lc.Limits = append(lc.Limits, uint64(n)*2, uint64(n)*3/2, uint64(n)/2)
		}
		nx := rapid.IntRange(0, 4).Draw(t, "nextra")
		for i := 0; i < nx; i++ {
			lc.Limits = append(lc.Limits, rapid.Uint64Range(0, 1<<22).Draw(t, "limit"))
		}
		msg, runs, nb := limitVerdict(lc)
		refusedSome, passedAll := 0, 0
		for _, r := range runs {
			if r.firstRefused < nb {
				refusedSome++
			} else {
				passedAll++
			}
			rec.Label(fmt.Sprintf("first_refusal_at_batch=%s", map[bool]string{true: "none", false: bucket(r.firstRefused)}[r.firstRefused >= nb]), 1)
		}
		rec.Label("stream_limit_pairs", len(runs))
		for _, r := range runs {
			if r.cut {
				rec.Excluded("continue-after-refusal")
			}
		}
		labels := []string{"batches=" + bucket(nb)}
		if bigValue > 0 {
			labels = append(labels, fmt.Sprintf("single_buffer_of_%d_MiB", (bigValue+(1<<19))>>20))
		}
		midStream := false
		for _, r := range runs {
			if r.firstRefused > 0 && r.firstRefused < nb {
				midStream = true
			}
		}
		if midStream {
			labels = append(labels, "refusal_in_mid_stream")
		}
		shape := fmt.Sprintf("%s#%d/%d/%d", o.String(), nb, refusedSome, passedAll)
		rec.Case(refusedSome > 0 && passedAll > 0, shape, labels, func() any {
			var ls []map[string]any
			keys := make([]uint64, 0, len(runs))
			for l := range runs {
				keys = append(keys, l)
			}
			sort.Slice(keys, func(i, j int) bool { return keys[i] < keys[j] })
			for _, l := range keys {
				ls = append(ls, map[string]any{"limit": l, "first_refused_batch": runs[l].firstRefused, "peak_reported_inuse": runs[l].peak})
			}
			return map[string]any{"options": o.String(), "decodable_batches": nb, "per_limit": ls}
		})
		if msg != "" {
			rec.Fail(t, lc, "options %s: %s", o, msg)
		}
	})
}

// measureNeed reports the in-use value published after each batch by a
// consumer with the default limit.
func measureNeed(c *StreamCase) (after []int64, peak int64, err error) {
	batches, err := encodeAll(c)
	if err != nil {
		return nil, 0, err
	}
	prov := &recordingProvider{}
	cons := arrow_record.NewConsumer(arrow_record.WithMeterProvider(prov))
	for _, b := range batches {
		d := Decode(cons, b.signal, proto.Clone(b.bar).(*colarspb.BatchArrowRecords))
		if d.Err != nil || d.Panic != nil {
			break
		}
		after = append(after, prov.inuse)
	}
	_ = catch(func() { _ = cons.Close() })
	return after, prov.peak, nil
}

func init() { otherReplays["C14"] = replayLimitCases }

// replayLimitCases replays saved C14 cases.
func replayLimitCases(t *testing.T) {
	cases, err := kit.LoadReplays("C14")
	if err != nil {
		t.Fatalf("loading replays: %v", err)
	}
	var files []string
	for f := range cases {
		files = append(files, f)
	}
	sort.Strings(files)
	for _, path := range files {
		fmt.Printf("REPLAY-START property=C14 file=%s\n", path)
		var lc LimitCase
		if err := json.Unmarshal(cases[path], &lc); err != nil {
			t.Fatalf("%s: %v", path, err)
		}
		if msg, _, _ := limitVerdict(&lc); msg != "" {
			fmt.Printf("REPLAY-FAIL property=C14 file=%s\n%s\n", path, msg)
			t.Errorf("%s: %s", path, msg)
		} else {
			fmt.Printf("REPLAY-OK property=C14 file=%s\n", path)
		}
	}
}

// TestC14Haul: "at any point of a stream" includes points reached after more
// than 2^32 bytes have gone through one consumer. The same 8 MiB logs batch
// (64 records with a 64 KiB body and a 64 KiB attribute; no dictionaries, no
// compression, so the memory a batch needs is stationary) is sent until the
// payloads add up to more than 4.6 GiB, under a limit that leaves ample room.
// Every batch must decode completely, and the in-use figure the consumer
// publishes must stay within the limit (seeded change C14f: 32-bit running
// totals in the allocator).
func TestC14Haul(t *testing.T) {
	rec := kit.Get("C14")
	rapid.Check(t, func(t *rapid.T) {
		valueLen := rapid.SampledFrom([]int{64 << 10, 48 << 10}).Draw(t, "valuelen")
		limit := rapid.SampledFrom([]uint64{64 << 20, 70 << 20, 40 << 20}).Draw(t, "limit")
		f := false
		o := Options{Dict: "none", Zstd: &f}
		hb := Batch{Signal: Logs, Synth: fmt.Sprintf("haul14/%d", valueLen)}
		in, err := hb.Decode()
		if err != nil {
			t.Fatalf("harness: %v", err)
		}
		want := in.Canon()
		p := arrow_record.NewProducerWithOptions(o.Build()...)
		prov := &recordingProvider{}
		cons := arrow_record.NewConsumer(arrow_record.WithMemoryLimit(limit), arrow_record.WithMeterProvider(prov))
		defer func() {
			_ = catch(func() { _ = p.Close() })
			_ = catch(func() { _ = cons.Close() })
		}()
		var sent uint64
		batches := 0
		c := &LimitCase{Stream: StreamCase{Options: o}, Limits: []uint64{limit}}
		for sent < 4600<<20 {
			c.Stream.Batches = append(c.Stream.Batches, hb)
			bar, eerr, pn := Encode(p, in)
			if pn != nil || eerr != nil {
				t.Fatalf("harness: producer failed on a plain batch: %v %v", eerr, pn)
			}
			for _, pl := range bar.ArrowPayloads {
				sent += uint64(len(pl.Record))
			}
			d := Decode(cons, Logs, bar)
			msg := ""
			switch {
			case d.Panic != nil:
				msg = fmt.Sprintf("consumer panicked: %s", d.Panic)
			case prov.peak > int64(limit):
				msg = fmt.Sprintf("arrow_memory_inuse reported %d bytes in use, above the limit", prov.peak)
			case d.Err != nil:
				msg = fmt.Sprintf("refused although the same batch decoded %d times before under this limit: %v", batches, d.Err)
			case d.Items != in.Items():
				msg = fmt.Sprintf("decoded %d of %d items", d.Items, in.Items())
			case batches%64 == 0:
				if diff := canon.Diff(want, d.Canon); diff != "" {
					msg = "decoded telemetry differs from encoded: " + diff
				}
			}
			if msg != "" {
				rec.Case(true, fmt.Sprintf("haul14/%d/%d", valueLen, limit), []string{"long_haul_past_4GiB"}, nil)
				rec.Fail(t, c, "limit %d, batch %d of a stream of identical %d-byte batches, %d MiB sent so far: %s", limit, batches, len(bar.ArrowPayloads[0].Record), sent>>20, msg)
			}
			batches++
		}
		rec.Label("haul_batches", batches)
		rec.Case(true, fmt.Sprintf("haul14/%d/%d", valueLen, limit), []string{"long_haul_past_4GiB"}, func() any {
			return map[string]any{"batches": batches, "payload_MiB_sent": sent >> 20, "limit": limit, "peak_in_use": prov.peak}
		})
	})
}
