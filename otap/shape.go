package otap

import (
	"fmt"
	"strings"
)

// bucket maps a count to a coarse class so that shape hashes identify the
// semantic shape of a case rather than its exact sizes.
func bucket(n int) string {
	switch {
	case n == 0:
		return "0"
	case n == 1:
		return "1"
	case n <= 3:
		return "2-3"
	case n <= 15:
		return "4-15"
	case n <= 255:
		return "16-255"
	case n <= 65535:
		return "256-65535"
	default:
		return ">65535"
	}
}

// Shape is a coarse description of an input: container and item counts and
// which kinds of children occur.
func (in Input) Shape() string {
	switch in.Signal {
	case Traces:
		td := in.Traces
		var sc, ev, lk, at int
		for i := 0; i < td.ResourceSpans().Len(); i++ {
			rs := td.ResourceSpans().At(i)
			sc += rs.ScopeSpans().Len()
			for j := 0; j < rs.ScopeSpans().Len(); j++ {
				ss := rs.ScopeSpans().At(j)
				for k := 0; k < ss.Spans().Len(); k++ {
					s := ss.Spans().At(k)
					ev += s.Events().Len()
					lk += s.Links().Len()
					at += s.Attributes().Len()
				}
			}
		}
		return fmt.Sprintf("T[r%s s%s i%s e%s l%s a%s]", bucket(td.ResourceSpans().Len()), bucket(sc), bucket(td.SpanCount()), bucket(ev), bucket(lk), bucket(at))
	case Logs:
		ld := in.Logs
		var sc, at int
		body := map[string]bool{}
		for i := 0; i < ld.ResourceLogs().Len(); i++ {
			rl := ld.ResourceLogs().At(i)
			sc += rl.ScopeLogs().Len()
			for j := 0; j < rl.ScopeLogs().Len(); j++ {
				sl := rl.ScopeLogs().At(j)
				for k := 0; k < sl.LogRecords().Len(); k++ {
					l := sl.LogRecords().At(k)
					at += l.Attributes().Len()
					body[l.Body().Type().String()] = true
				}
			}
		}
		var bs []string
		for _, t := range []string{"Empty", "Str", "Int", "Double", "Bool", "Bytes", "Slice", "Map"} {
			if body[t] {
				bs = append(bs, t[:2])
			}
		}
		return fmt.Sprintf("L[r%s s%s i%s a%s b%s]", bucket(ld.ResourceLogs().Len()), bucket(sc), bucket(ld.LogRecordCount()), bucket(at), strings.Join(bs, ""))
	default:
		md := in.Metrics
		var sc int
		types := map[string]int{}
		for i := 0; i < md.ResourceMetrics().Len(); i++ {
			rm := md.ResourceMetrics().At(i)
			sc += rm.ScopeMetrics().Len()
			for j := 0; j < rm.ScopeMetrics().Len(); j++ {
				sm := rm.ScopeMetrics().At(j)
				for k := 0; k < sm.Metrics().Len(); k++ {
					types[sm.Metrics().At(k).Type().String()]++
				}
			}
		}
		var ts []string
		for _, t := range []string{"Empty", "Gauge", "Sum", "Histogram", "ExponentialHistogram", "Summary"} {
			if types[t] > 0 {
				ts = append(ts, t[:2]+bucket(types[t]))
			}
		}
		return fmt.Sprintf("M[r%s s%s i%s p%s %s]", bucket(md.ResourceMetrics().Len()), bucket(sc), bucket(md.MetricCount()), bucket(md.DataPointCount()), strings.Join(ts, ","))
	}
}
