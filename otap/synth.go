package otap

import (
	"fmt"
	"strconv"
	"strings"

	"go.opentelemetry.io/collector/pdata/pcommon"
	"go.opentelemetry.io/collector/pdata/plog"
	"go.opentelemetry.io/collector/pdata/pmetric"
	"go.opentelemetry.io/collector/pdata/ptrace"
)

// synthInput builds the batch a Synth descriptor stands for:
//
//	long_list/<n>  one item whose attribute "big" (and, for logs, a second
//	               record whose body) is a list of n small integers
//	long_map/<n>   the same with a map of n entries
func synthInput(signal, synth string) (Input, error) {
	kind, arg, _ := strings.Cut(synth, "/")
	n, err := strconv.Atoi(arg)
	if err != nil || n < 0 {
		return Input{}, fmt.Errorf("bad synthetic batch %q", synth)
	}
	fill := func(v pcommon.Value) {
		switch kind {
		case "long_list":
			sl := v.SetEmptySlice()
			sl.EnsureCapacity(n)
			for i := 0; i < n; i++ {
				sl.AppendEmpty().SetInt(int64(i % 7))
			}
		case "long_map":
			raw := make(map[string]any, n)
			for i := 0; i < n; i++ {
				raw["k"+strconv.Itoa(i)] = int64(i % 5)
			}
			_ = v.SetEmptyMap().FromRaw(raw)
		}
	}
	if kind != "long_list" && kind != "long_map" {
		return Input{}, fmt.Errorf("unknown synthetic batch %q", synth)
	}
	in := Input{Signal: signal}
	switch signal {
	case Traces:
		in.Traces = ptrace.NewTraces()
		sp := in.Traces.ResourceSpans().AppendEmpty().ScopeSpans().AppendEmpty().Spans().AppendEmpty()
		sp.SetName("long")
		fill(sp.Attributes().PutEmpty("big"))
		sp.Attributes().PutStr("after", "x")
	case Logs:
		in.Logs = plog.NewLogs()
		sl := in.Logs.ResourceLogs().AppendEmpty().ScopeLogs().AppendEmpty()
		l := sl.LogRecords().AppendEmpty()
		l.Body().SetStr("attr")
		fill(l.Attributes().PutEmpty("big"))
		fill(sl.LogRecords().AppendEmpty().Body())
	case Metrics:
		in.Metrics = pmetric.NewMetrics()
		m := in.Metrics.ResourceMetrics().AppendEmpty().ScopeMetrics().AppendEmpty().Metrics().AppendEmpty()
		m.SetName("long")
		dp := m.SetEmptyGauge().DataPoints().AppendEmpty()
		dp.SetIntValue(1)
		fill(dp.Attributes().PutEmpty("big"))
	default:
		return Input{}, fmt.Errorf("unknown signal %q", signal)
	}
	return in, nil
}
