package otap

import (
	"fmt"
	"strconv"
	"strings"

	"go.opentelemetry.io/collector/pdata/pcommon"
	"go.opentelemetry.io/collector/pdata/plog"
	"go.opentelemetry.io/collector/pdata/pmetric"
	"go.opentelemetry.io/collector/pdata/ptrace"
)

// synthInput builds the batch a Synth descriptor stands for:
//
//	long_list/<n>  one item whose attribute "big" (and, for logs, a second
//	               record whose body) is a list of n small integers
//	long_map/<n>   the same with a map of n entries
//	bigvalue/<n>   the same with ONE string of n bytes (a single Arrow buffer of that size)
//	bigrandom/<n>  the same with an incompressible string of n bytes (a payload of that size on the wire)
//	haul/<n>, haulwide/<n>   a long-haul batch of n items (haulInput)
//	haul14/<n>     64 log records with an n-byte string body and an n-byte string attribute (C14 long haul)
//	keyed/<key>/<salt>   three items whose resource, scope and item attributes use the key <key> (keyedInput)
//	complex/<n>/<salt>/<items>   items whose body / attribute is a MAP value that serialises to about n bytes (complexInput)
func synthInput(signal, synth string) (Input, error) {
	kind, arg, _ := strings.Cut(synth, "/")
	if kind == "haul14" {
		n, err := strconv.Atoi(arg)
		if err != nil || n < 0 {
			return Input{}, fmt.Errorf("bad synthetic batch %q", synth)
		}
		in := Input{Signal: Logs, Logs: plog.NewLogs()}
		sl := in.Logs.ResourceLogs().AppendEmpty().ScopeLogs().AppendEmpty()
		for i := 0; i < 64; i++ {
			l := sl.LogRecords().AppendEmpty()
			l.Body().SetStr(strconv.Itoa(i) + strings.Repeat("b", n))
			l.Attributes().PutStr("a", strconv.Itoa(i)+strings.Repeat("a", n))
		}
		return in, nil
	}
	if kind == "keyed" {
		key, salt, _ := strings.Cut(arg, "/")
		return keyedInput(signal, key, salt), nil
	}
	if kind == "complex" {
		var n, salt, items int
		if _, err := fmt.Sscanf(arg, "%d/%d/%d", &n, &salt, &items); err != nil || n < 0 || items < 0 {
			return Input{}, fmt.Errorf("bad synthetic batch %q", synth)
		}
		return complexInput(signal, n, salt, items), nil
	}
	if kind == "haul" || kind == "haulwide" {
		n, err := strconv.Atoi(arg)
		if err != nil || n < 0 {
			return Input{}, fmt.Errorf("bad synthetic batch %q", synth)
		}
		return haulInput(signal, n, kind == "haulwide"), nil
	}
	n, err := strconv.Atoi(arg)
	if err != nil || n < 0 {
		return Input{}, fmt.Errorf("bad synthetic batch %q", synth)
	}
	fill := func(v pcommon.Value) {
		switch kind {
		case "bigvalue":
			v.SetStr(strings.Repeat("x", n))
		case "bigrandom":
			// n bytes that do not compress (a fixed xorshift sequence rendered
			// in a 64-character alphabet): the PAYLOAD stays large under zstd
			const alphabet = "ABCDEFGHIJKLMNOPQRSTUVWXYZabcdefghijklmnopqrstuvwxyz0123456789+/"
			b := make([]byte, n)
			x := uint64(88172645463325252)
			for i := range b {
				x ^= x << 13
				x ^= x >> 7
				x ^= x << 17
				b[i] = alphabet[x&63]
			}
			v.SetStr(string(b))
		case "long_list":
			sl := v.SetEmptySlice()
			sl.EnsureCapacity(n)
			for i := 0; i < n; i++ {
				sl.AppendEmpty().SetInt(int64(i % 7))
			}
		case "long_map":
			raw := make(map[string]any, n)
			for i := 0; i < n; i++ {
				raw["k"+strconv.Itoa(i)] = int64(i % 5)
			}
			_ = v.SetEmptyMap().FromRaw(raw)
		}
	}
	if kind != "long_list" && kind != "long_map" && kind != "bigvalue" && kind != "bigrandom" {
		return Input{}, fmt.Errorf("unknown synthetic batch %q", synth)
	}
	in := Input{Signal: signal}
	switch signal {
	case Traces:
		in.Traces = ptrace.NewTraces()
		sp := in.Traces.ResourceSpans().AppendEmpty().ScopeSpans().AppendEmpty().Spans().AppendEmpty()
		sp.SetName("long")
		fill(sp.Attributes().PutEmpty("big"))
		sp.Attributes().PutStr("after", "x")
	case Logs:
		in.Logs = plog.NewLogs()
		sl := in.Logs.ResourceLogs().AppendEmpty().ScopeLogs().AppendEmpty()
		l := sl.LogRecords().AppendEmpty()
		l.Body().SetStr("attr")
		fill(l.Attributes().PutEmpty("big"))
		fill(sl.LogRecords().AppendEmpty().Body())
	case Metrics:
		in.Metrics = pmetric.NewMetrics()
		m := in.Metrics.ResourceMetrics().AppendEmpty().ScopeMetrics().AppendEmpty().Metrics().AppendEmpty()
		m.SetName("long")
		dp := m.SetEmptyGauge().DataPoints().AppendEmpty()
		dp.SetIntValue(1)
		fill(dp.Attributes().PutEmpty("big"))
	default:
		return Input{}, fmt.Errorf("unknown signal %q", signal)
	}
	return in, nil
}

// haulInput is the batch of a long-haul stream (DESIGN.md §7, C01-C03): n
// items with the SAME ids in every batch, so that after the first batch the
// dictionaries are stationary and the memory a consumer needs per batch does
// not grow.
func haulInput(signal string, n int, wide bool) Input {
	attrs := func(m pcommon.Map, id int) {
		s := strconv.Itoa(id)
		m.PutStr("k", "v"+s)
		m.PutInt("i", int64(id))
		if wide {
			m.PutDouble("d", float64(id)+0.5)
			m.PutEmptyBytes("y").FromRaw([]byte(s))
		}
	}
	in := Input{Signal: signal}
	switch signal {
	case Traces:
		in.Traces = ptrace.NewTraces()
		rs := in.Traces.ResourceSpans().AppendEmpty()
		rs.Resource().Attributes().PutStr("host", "h")
		ss := rs.ScopeSpans().AppendEmpty()
		ss.Scope().SetName("scope")
		ss.Spans().EnsureCapacity(n)
		for id := 0; id < n; id++ {
			s := strconv.Itoa(id)
			sp := ss.Spans().AppendEmpty()
			sp.SetName("n" + s)
			var tid pcommon.TraceID
			copy(tid[:], "t"+s)
			sp.SetTraceID(tid)
			var sid pcommon.SpanID
			copy(sid[:], s)
			sp.SetSpanID(sid)
			sp.SetStartTimestamp(pcommon.Timestamp(1000 + id))
			sp.SetEndTimestamp(pcommon.Timestamp(2000 + 2*id))
			attrs(sp.Attributes(), id)
			if wide {
				ev := sp.Events().AppendEmpty()
				ev.SetName("e" + s)
				attrs(ev.Attributes(), id)
				lk := sp.Links().AppendEmpty()
				lk.SetTraceID(tid)
				attrs(lk.Attributes(), id)
			}
		}
	case Logs:
		in.Logs = plog.NewLogs()
		rl := in.Logs.ResourceLogs().AppendEmpty()
		rl.Resource().Attributes().PutStr("host", "h")
		sl := rl.ScopeLogs().AppendEmpty()
		sl.Scope().SetName("scope")
		sl.LogRecords().EnsureCapacity(n)
		for id := 0; id < n; id++ {
			s := strconv.Itoa(id)
			l := sl.LogRecords().AppendEmpty()
			l.Body().SetStr("body " + s)
			l.SetSeverityText("sev" + strconv.Itoa(id%20))
			l.SetTimestamp(pcommon.Timestamp(1000 + id))
			var tid pcommon.TraceID
			copy(tid[:], "t"+s)
			l.SetTraceID(tid)
			attrs(l.Attributes(), id)
		}
	default:
		in.Metrics = pmetric.NewMetrics()
		rm := in.Metrics.ResourceMetrics().AppendEmpty()
		rm.Resource().Attributes().PutStr("host", "h")
		sm := rm.ScopeMetrics().AppendEmpty()
		sm.Scope().SetName("scope")
		sm.Metrics().EnsureCapacity(n)
		for id := 0; id < n; id++ {
			s := strconv.Itoa(id)
			m := sm.Metrics().AppendEmpty()
			m.SetName("n" + s)
			m.SetUnit("u" + strconv.Itoa(id%50))
			if wide && id%2 == 1 {
				dp := m.SetEmptyHistogram().DataPoints().AppendEmpty()
				dp.SetCount(uint64(id))
				dp.BucketCounts().FromRaw([]uint64{uint64(id), 1})
				dp.ExplicitBounds().FromRaw([]float64{float64(id)})
				attrs(dp.Attributes(), id)
				ex := dp.Exemplars().AppendEmpty()
				ex.SetDoubleValue(float64(id))
				attrs(ex.FilteredAttributes(), id)
				continue
			}
			dp := m.SetEmptyGauge().DataPoints().AppendEmpty()
			dp.SetIntValue(int64(id))
			dp.SetTimestamp(pcommon.Timestamp(1000 + id))
			attrs(dp.Attributes(), id)
		}
	}
	return in
}

// complexInput builds `items` items that each carry a map-valued attribute
// (logs: also a map-valued body) whose serialised form is about n bytes; the
// content depends on salt and on the item, so that two streams never carry the
// same bytes (complex values go through the CBOR encoder, a code path of its
// own next to the scalar columns - seeded change C16e pools its buffers).
func complexInput(signal string, n, salt, items int) Input {
	fill := func(v pcommon.Value, i int) {
		m := v.SetEmptyMap()
		m.PutStr("payload", strings.Repeat(string(rune('A'+(salt+i)%26)), n))
		m.PutInt("salt", int64(salt))
		m.PutInt("item", int64(i))
		m.PutEmptySlice("list").AppendEmpty().SetStr("s" + strconv.Itoa(salt))
	}
	in := Input{Signal: signal}
	switch signal {
	case Traces:
		in.Traces = ptrace.NewTraces()
		ss := in.Traces.ResourceSpans().AppendEmpty().ScopeSpans().AppendEmpty()
		for i := 0; i < items; i++ {
			sp := ss.Spans().AppendEmpty()
			sp.SetName("complex")
			fill(sp.Attributes().PutEmpty("m"), i)
			fill(sp.Events().AppendEmpty().Attributes().PutEmpty("m"), i+1)
		}
	case Logs:
		in.Logs = plog.NewLogs()
		sl := in.Logs.ResourceLogs().AppendEmpty().ScopeLogs().AppendEmpty()
		for i := 0; i < items; i++ {
			l := sl.LogRecords().AppendEmpty()
			fill(l.Body(), i)
			fill(l.Attributes().PutEmpty("m"), i+1)
		}
	default:
		in.Metrics = pmetric.NewMetrics()
		sm := in.Metrics.ResourceMetrics().AppendEmpty().ScopeMetrics().AppendEmpty()
		for i := 0; i < items; i++ {
			m := sm.Metrics().AppendEmpty()
			m.SetName("complex")
			dp := m.SetEmptyGauge().DataPoints().AppendEmpty()
			dp.SetIntValue(int64(i))
			fill(dp.Attributes().PutEmpty("m"), i)
		}
	}
	return in
}

// keyedInput builds a small batch in which the resource, the scope and every
// item carry one attribute under the given key (value "v<salt>").
func keyedInput(signal, key, salt string) Input {
	in := Input{Signal: signal}
	put := func(m pcommon.Map) { m.PutStr(key, "v"+salt) }
	switch signal {
	case Traces:
		in.Traces = ptrace.NewTraces()
		rs := in.Traces.ResourceSpans().AppendEmpty()
		put(rs.Resource().Attributes())
		ss := rs.ScopeSpans().AppendEmpty()
		put(ss.Scope().Attributes())
		for i := 0; i < 3; i++ {
			sp := ss.Spans().AppendEmpty()
			sp.SetName("keyed" + strconv.Itoa(i))
			put(sp.Attributes())
			put(sp.Events().AppendEmpty().Attributes())
		}
	case Logs:
		in.Logs = plog.NewLogs()
		rl := in.Logs.ResourceLogs().AppendEmpty()
		put(rl.Resource().Attributes())
		sl := rl.ScopeLogs().AppendEmpty()
		put(sl.Scope().Attributes())
		for i := 0; i < 3; i++ {
			l := sl.LogRecords().AppendEmpty()
			l.Body().SetStr("keyed" + strconv.Itoa(i))
			put(l.Attributes())
		}
	default:
		in.Metrics = pmetric.NewMetrics()
		rm := in.Metrics.ResourceMetrics().AppendEmpty()
		put(rm.Resource().Attributes())
		sm := rm.ScopeMetrics().AppendEmpty()
		put(sm.Scope().Attributes())
		for i := 0; i < 3; i++ {
			m := sm.Metrics().AppendEmpty()
			m.SetName("keyed" + strconv.Itoa(i))
			dp := m.SetEmptyGauge().DataPoints().AppendEmpty()
			dp.SetIntValue(int64(i))
			put(dp.Attributes())
		}
	}
	return in
}
