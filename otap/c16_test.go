package otap

import (
	"encoding/json"
	"fmt"
	"os"
	"os/exec"
	"sort"
	"strconv"
	"strings"
	"sync"
	"testing"

	"go.opentelemetry.io/collector/pdata/pcommon"
	"go.opentelemetry.io/collector/pdata/plog"
	"go.opentelemetry.io/collector/pdata/pmetric"
	"go.opentelemetry.io/collector/pdata/ptrace"
	"pgregory.net/rapid"

	"verif/kit"
	"verif/otap/canon"
	"verif/otap/gen"
)

// GroupCase is a set of independent streams, each with its own producer and
// consumer.
type GroupCase struct {
	Streams []StreamCase `json:"streams"`
	// Crowd > 0: after every stream has sent its first batch, Crowd short-lived
	// neighbour streams (one small batch each, attribute layouts varying with
	// the index, see neighbour) are run by 8 goroutines while the streams are
	// idle; then the streams resume. "Any number of producer/consumer pairs":
	// hundreds of instances come and go during the life of a stream.
	Crowd int `json:"crowd,omitempty"`
}

// neighbour builds the i-th short-lived stream of a crowd.
func neighbour(i int) *StreamCase {
	put := func(m pcommon.Map) {
		m.PutStr("s", "n"+strconv.Itoa(i))
		switch (i / 3) % 6 {
		case 0:
			m.PutInt("v", int64(i))
		case 1:
			m.PutDouble("v", float64(i)+0.5)
		case 2:
			m.PutBool("v", i%2 == 0)
		case 3:
			m.PutEmptyBytes("v").FromRaw([]byte{byte(i), 1})
		case 4:
			m.PutEmptySlice("v").AppendEmpty().SetInt(int64(i))
		default:
			m.PutInt("v", int64(i))
			m.PutDouble("w", 1.5)
		}
	}
	switch i % 3 {
	case 0:
		td := ptrace.NewTraces()
		rs := td.ResourceSpans().AppendEmpty()
		put(rs.Resource().Attributes())
		ss := rs.ScopeSpans().AppendEmpty()
		put(ss.Scope().Attributes())
		sp := ss.Spans().AppendEmpty()
		sp.SetName("n")
		put(sp.Attributes())
		put(sp.Events().AppendEmpty().Attributes())
		return &StreamCase{Batches: []Batch{TracesBatch(td)}}
	case 1:
		ld := plog.NewLogs()
		rl := ld.ResourceLogs().AppendEmpty()
		put(rl.Resource().Attributes())
		sl := rl.ScopeLogs().AppendEmpty()
		put(sl.Scope().Attributes())
		l := sl.LogRecords().AppendEmpty()
		l.Body().SetStr("n")
		put(l.Attributes())
		return &StreamCase{Batches: []Batch{LogsBatch(ld)}}
	default:
		md := pmetric.NewMetrics()
		rm := md.ResourceMetrics().AppendEmpty()
		put(rm.Resource().Attributes())
		sm := rm.ScopeMetrics().AppendEmpty()
		put(sm.Scope().Attributes())
		m := sm.Metrics().AppendEmpty()
		m.SetName("n")
		dp := m.SetEmptyGauge().DataPoints().AppendEmpty()
		dp.SetIntValue(int64(i))
		put(dp.Attributes())
		return &StreamCase{Batches: []Batch{MetricsBatch(md)}}
	}
}

// streamOutcome is what one stream produced, batch by batch.
type streamOutcome struct {
	lines []string // one line per batch: outcome class + canonical output hash
	canon [][]string
}

func runAlone(c *StreamCase) streamOutcome { return runStreamOutcome(c, nil) }

// wantLines is the outcome of a stream that round-trips exactly (used for the
// simple neighbour streams of a crowd).
func (c *StreamCase) wantLines() []string {
	var ls []string
	for _, b := range c.Batches {
		in, err := b.Decode()
		if err != nil {
			return []string{"harness: " + err.Error()}
		}
		w := in.Canon()
		ls = append(ls, fmt.Sprintf("ok %d items %016x", len(w), kit.Hash64(w...)))
	}
	return ls
}

func runStreamOutcome(c *StreamCase, afterBatch func(int)) streamOutcome {
	var o streamOutcome
	res, err := RunStream(c, RunConfig{Decode: true, StopAtDecodeFail: true, AfterBatch: afterBatch})
	if err != nil {
		o.lines = append(o.lines, "harness: "+err.Error())
		return o
	}
	for _, b := range res.Batches {
		switch {
		case b.EncodePanic != nil:
			o.lines = append(o.lines, "encode-panic")
		case b.EncodeErr != nil:
			o.lines = append(o.lines, "encode-error")
		case b.Decoded.Panic != nil:
			o.lines = append(o.lines, "decode-panic")
		case b.Decoded.Err != nil:
			o.lines = append(o.lines, "decode-error")
		default:
			o.lines = append(o.lines, fmt.Sprintf("ok %d items %016x", len(b.Decoded.Canon), kit.Hash64(b.Decoded.Canon...)))
		}
		o.canon = append(o.canon, b.Decoded.Canon)
	}
	return o
}

// groupVerdict runs every stream alone (reference) and then all of them
// concurrently from a barrier; every stream must produce exactly what it
// produces alone. Under -race (GORACE=halt_on_error=1) a data race ends the
// process; the driver then reports the case saved by kit.SaveCurrent.
func groupVerdict(g *GroupCase) string {
	refs := make([]streamOutcome, len(g.Streams))
	for i := range g.Streams {
		refs[i] = runAlone(&g.Streams[i])
	}
	// "Run alone" above means: alone at that moment, in a process in which
	// other producer/consumer instances have been used before. When such a run
	// does not decode to its own input, the stream is run once more in a FRESH
	// process: if it round-trips there, what differed here was state that
	// earlier instances left behind - shared mutable state, whatever the
	// interleaving. (If it does not round-trip in a fresh process either, that
	// is C04's matter or a listed known finding, and not reported here.)
	if os.Getenv("VERIF_C16_FRESH") == "" {
	suspects:
		for i := range g.Streams {
			want := g.Streams[i].wantLines()
			for k, line := range refs[i].lines {
				if k < len(want) && strings.HasPrefix(line, "ok ") && line != want[k] {
					fresh, err := runFresh(&g.Streams[i])
					if err == nil && k < len(fresh) && fresh[k] == want[k] {
						return fmt.Sprintf("stream %d batch %d decodes to its input in a fresh process (%q) but not in this process, where %d other producer/consumer pairs had been used before it ran alone (%q): instances share state", i, k, fresh[k], i, line)
					}
					break suspects // one fresh process per case
				}
			}
		}
	}
	got := make([]streamOutcome, len(g.Streams))
	var wg sync.WaitGroup
	start := make(chan struct{})
	// crowd phase: every stream reports when its first batch is through (or
	// when it ended earlier) and then waits until the crowd has come and gone
	var firstDone sync.WaitGroup
	crowdGone := make(chan struct{})
	for i := range g.Streams {
		wg.Add(1)
		firstDone.Add(1)
		go func(i int) {
			defer wg.Done()
			var once sync.Once
			defer once.Do(firstDone.Done)
			<-start
			var hook func(int)
			if g.Crowd > 0 {
				hook = func(k int) {
					if k == 0 {
						once.Do(firstDone.Done)
						<-crowdGone
					}
				}
			}
			got[i] = runStreamOutcome(&g.Streams[i], hook)
		}(i)
	}
	close(start)
	crowdBad, crowdLines := -1, []string(nil)
	if g.Crowd > 0 {
		firstDone.Wait()
		var cw sync.WaitGroup
		var mu sync.Mutex
		next := 0
		for w := 0; w < 8; w++ {
			cw.Add(1)
			go func() {
				defer cw.Done()
				for {
					mu.Lock()
					i := next
					next++
					mu.Unlock()
					if i >= g.Crowd {
						return
					}
					nb := neighbour(i)
					among := runStreamOutcome(nb, nil)
					want := nb.wantLines()
					if strings.Join(among.lines, "|") != strings.Join(want, "|") {
						mu.Lock()
						if crowdBad < 0 {
							crowdBad, crowdLines = i, among.lines
						}
						mu.Unlock()
					}
				}
			}()
		}
		cw.Wait()
	}
	close(crowdGone)
	wg.Wait()
	if crowdBad >= 0 {
		// a neighbour's output differed from its input: only a C16 matter if it
		// does not differ when the neighbour runs alone
		alone := runStreamOutcome(neighbour(crowdBad), nil)
		if strings.Join(alone.lines, "|") == strings.Join(neighbour(crowdBad).wantLines(), "|") {
			return fmt.Sprintf("neighbour %d of the crowd: among %d streams %q, alone %q", crowdBad, len(g.Streams)+g.Crowd, crowdLines, alone.lines)
		}
	}
	for i := range g.Streams {
		a, b := refs[i], got[i]
		if len(a.lines) != len(b.lines) {
			return fmt.Sprintf("stream %d: %d batches alone, %d when run concurrently", i, len(a.lines), len(b.lines))
		}
		for k := range a.lines {
			if a.lines[k] != b.lines[k] {
				d := ""
				if k < len(a.canon) && k < len(b.canon) {
					d = canon.Diff(a.canon[k], b.canon[k])
				}
				return fmt.Sprintf("stream %d batch %d: alone %q, concurrently with %d other streams (and a crowd of %d short-lived ones after the first batch) %q\n%s", i, k, a.lines[k], len(g.Streams)-1, g.Crowd, b.lines[k], d)
			}
		}
	}
	return ""
}

// TestC16: distinct producer/consumer instances used concurrently behave as
// when run alone (build with -race).
func TestC16(t *testing.T) {
	rec := kit.Get("C16")
	rapid.Check(t, func(t *rapid.T) {
		n := rapid.IntRange(2, 8).Draw(t, "nstreams")
		g := &GroupCase{}
		minb := 1
		if pct(t, "crowd", 15) {
			g.Crowd = rapid.SampledFrom([]int{400, 300, 600, 100}).Draw(t, "crowdn")
			minb = 2
			n = rapid.IntRange(1, 4).Draw(t, "crowdstreams")
		}
		var shapes []string
		sameOpts := rapid.Bool().Draw(t, "sameopts")
		var shared Options
		if sameOpts {
			shared = genOptions(t, rec)
			genExtraOptions(t, &shared, false)
		}
		// heavy streams: batches of 9,000-17,000 items with 4 or 8 string
		// attributes each (tens of thousands of rows in the attribute
		// accumulators) between small ones, on 2-3 concurrent streams
		// (thorough tier only: under the race detector such a case takes minutes)
		heavy := g.Crowd == 0 && thorough() && pct(t, "heavy", 2)
		if heavy {
			n = rapid.IntRange(2, 3).Draw(t, "heavystreams")
		}
		// complex values: every stream of the group also sends batches of items
		// with map-valued attributes / bodies that serialise to 4 KiB ... 70 KiB,
		// different bytes in every stream (20 % of the groups)
		complexN := 0
		if g.Crowd == 0 && !heavy && pct(t, "complex", 20) {
			complexN = rapid.SampledFrom([]int{5000, 12000, 40000, 4097, 70000, 64 << 10}).Draw(t, "complexn")
		}
		// hash twins: the streams of the group use DIFFERENT members of a pair
		// of keys that collide under a well-known 32-bit hash (15 % of the
		// groups) - nothing of one stream may be found again in another
		var twinPair []string
		if g.Crowd == 0 && pct(t, "twinsplit", 15) {
			twinPair = gen.HashTwins[rapid.IntRange(0, len(gen.HashTwins)-1).Draw(t, "twinsplitpair")]
		}
		for i := 0; i < n; i++ {
			o := shared
			if !sameOpts {
				o = genOptions(t, rec)
				genExtraOptions(t, &o, false)
			}
			if rapid.IntRange(0, 5).Draw(t, "customlimit") == 0 {
				// arbitrary options: a dictionary limit that is not one of the
				// With*LimitDictIndex capacities, set through a custom Option
				o.Dict = "custom:" + rapid.SampledFrom([]string{"300", "1000", "10", "70000", "1", "255", "256"}).Draw(t, "customn")
			}
			plan := historyPlan{MinBatches: minb, MaxBatches: 5, Interleave: true, Knobs: gen.InDomain()}
			if heavy {
				plan = historyPlan{MinBatches: 3, MaxBatches: 5, FanCross: true, Knobs: gen.InDomain()}
			}
			c, _ := genOptionHistory(t, plan)
			c.Options = o
			if complexN > 0 {
				sig := c.Batches[0].Signal
				items := rapid.SampledFrom([]int{24, 8, 60}).Draw(t, "complexitems")
				nb := rapid.IntRange(1, 3).Draw(t, "complexbatches")
				var ins []Batch
				for b := 0; b < nb; b++ {
					ins = append(ins, Batch{Signal: sig, Synth: fmt.Sprintf("complex/%d/%d/%d", complexN, 7*i+b, items)})
				}
				at := rapid.IntRange(0, len(c.Batches)).Draw(t, "complexat")
				c.Batches = append(c.Batches[:at:at], append(ins, c.Batches[at:]...)...)
			}
			if twinPair != nil {
				kb := Batch{Signal: c.Batches[0].Signal, Synth: fmt.Sprintf("keyed/%s/%d", twinPair[i%2], i)}
				at := rapid.IntRange(0, len(c.Batches)).Draw(t, "twinat")
				c.Batches = append(c.Batches[:at:at], append([]Batch{kb}, c.Batches[at:]...)...)
			}
			g.Streams = append(g.Streams, *c)
			shapes = append(shapes, fmt.Sprintf("%s/%d", o.String(), len(c.Batches)))
		}
		kit.SaveCurrent("C16", g)
		sort.Strings(shapes)
		labels := []string{fmt.Sprintf("streams=%d", n)}
		if sameOpts {
			labels = append(labels, "same_options_all_streams")
		}
		if heavy {
			labels = append(labels, "heavy_streams_with_large_attribute_tables")
			shapes = append(shapes, "heavy")
		}
		if twinPair != nil {
			labels = append(labels, "streams_use_different_members_of_a_hash_collision_pair")
			shapes = append(shapes, "twins")
		}
		if complexN > 0 {
			labels = append(labels, "all_streams_send_map_values_of_4_to_70_KiB")
			shapes = append(shapes, fmt.Sprintf("complex%d", complexN))
		}
		if g.Crowd > 0 {
			labels = append(labels, "crowd_of_short_lived_neighbours", fmt.Sprintf("crowd=%d", g.Crowd))
			shapes = append(shapes, fmt.Sprintf("crowd%d", g.Crowd))
		}
		rec.Case(true, strings.Join(shapes, "|"), labels, func() any {
			return map[string]any{"streams": len(g.Streams), "options_and_batches": shapes}
		})
		if msg := groupVerdict(g); msg != "" {
			rec.Fail(t, g, "%s", msg)
		}
	})
}

// runFresh runs one stream in a child process of this test binary and returns
// its outcome lines.
func runFresh(c *StreamCase) ([]string, error) {
	f, err := os.CreateTemp("", "c16fresh-*.json")
	if err != nil {
		return nil, err
	}
	defer os.Remove(f.Name())
	if err := json.NewEncoder(f).Encode(c); err != nil {
		return nil, err
	}
	_ = f.Close()
	cmd := exec.Command(os.Args[0], "-test.run", "^TestC16Fresh$", "-test.v")
	cmd.Env = append(os.Environ(), "VERIF_C16_FRESH="+f.Name(), "VERIF_SHARD_OUT=", "VERIF_REPLAY_OUT=", "VERIF_CURRENT_OUT=")
	out, err := cmd.Output()
	if err != nil {
		return nil, err
	}
	var lines []string
	for _, l := range strings.Split(string(out), "\n") {
		if strings.HasPrefix(l, "FRESH-LINE ") {
			lines = append(lines, strings.TrimPrefix(l, "FRESH-LINE "))
		}
	}
	return lines, nil
}

// TestC16Fresh is the child side of runFresh.
func TestC16Fresh(t *testing.T) {
	p := os.Getenv("VERIF_C16_FRESH")
	if p == "" {
		t.Skip("only run as a child of the C16 check")
	}
	b, err := os.ReadFile(p)
	if err != nil {
		t.Fatal(err)
	}
	var c StreamCase
	if err := json.Unmarshal(b, &c); err != nil {
		t.Fatal(err)
	}
	for _, l := range runAlone(&c).lines {
		fmt.Printf("FRESH-LINE %s\n", l)
	}
}

func replayGroupCases(t *testing.T) {
	cases, err := kit.LoadReplays("C16")
	if err != nil {
		t.Fatalf("loading replays: %v", err)
	}
	var files []string
	for f := range cases {
		files = append(files, f)
	}
	sort.Strings(files)
	for _, path := range files {
		fmt.Printf("REPLAY-START property=C16 file=%s\n", path)
		var g GroupCase
		if err := json.Unmarshal(cases[path], &g); err != nil {
			t.Fatalf("%s: %v", path, err)
		}
		msg := ""
		for round := 0; round < 20 && msg == ""; round++ { // schedule dependent: repeat
			msg = groupVerdict(&g)
		}
		if msg != "" {
			fmt.Printf("REPLAY-FAIL property=C16 file=%s\n%s\n", path, msg)
			t.Errorf("%s: %s", path, msg)
		} else {
			fmt.Printf("REPLAY-OK property=C16 file=%s\n", path)
		}
	}
}

func init() { otherReplays["C16"] = replayGroupCases }
