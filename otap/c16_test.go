package otap

import (
	"encoding/json"
	"fmt"
	"sort"
	"strings"
	"sync"
	"testing"

	"pgregory.net/rapid"

	"verif/kit"
	"verif/otap/canon"
	"verif/otap/gen"
)

// GroupCase is a set of independent streams, each with its own producer and
// consumer.
type GroupCase struct {
	Streams []StreamCase `json:"streams"`
}

// streamOutcome is what one stream produced, batch by batch.
type streamOutcome struct {
	lines []string // one line per batch: outcome class + canonical output hash
	canon [][]string
}

func runAlone(c *StreamCase) streamOutcome {
	var o streamOutcome
	res, err := RunStream(c, RunConfig{Decode: true, StopAtDecodeFail: true})
	if err != nil {
		o.lines = append(o.lines, "harness: "+err.Error())
		return o
	}
	for _, b := range res.Batches {
		switch {
		case b.EncodePanic != nil:
			o.lines = append(o.lines, "encode-panic")
		case b.EncodeErr != nil:
			o.lines = append(o.lines, "encode-error")
		case b.Decoded.Panic != nil:
			o.lines = append(o.lines, "decode-panic")
		case b.Decoded.Err != nil:
			o.lines = append(o.lines, "decode-error")
		default:
			o.lines = append(o.lines, fmt.Sprintf("ok %d items %016x", len(b.Decoded.Canon), kit.Hash64(b.Decoded.Canon...)))
		}
		o.canon = append(o.canon, b.Decoded.Canon)
	}
	return o
}

// groupVerdict runs every stream alone (reference) and then all of them
// concurrently from a barrier; every stream must produce exactly what it
// produces alone. Under -race (GORACE=halt_on_error=1) a data race ends the
// process; the driver then reports the case saved by kit.SaveCurrent.
func groupVerdict(g *GroupCase) string {
	refs := make([]streamOutcome, len(g.Streams))
	for i := range g.Streams {
		refs[i] = runAlone(&g.Streams[i])
	}
	got := make([]streamOutcome, len(g.Streams))
	var wg sync.WaitGroup
	start := make(chan struct{})
	for i := range g.Streams {
		wg.Add(1)
		go func(i int) {
			defer wg.Done()
			<-start
			got[i] = runAlone(&g.Streams[i])
		}(i)
	}
	close(start)
	wg.Wait()
	for i := range g.Streams {
		a, b := refs[i], got[i]
		if len(a.lines) != len(b.lines) {
			return fmt.Sprintf("stream %d: %d batches alone, %d when run concurrently", i, len(a.lines), len(b.lines))
		}
		for k := range a.lines {
			if a.lines[k] != b.lines[k] {
				d := ""
				if k < len(a.canon) && k < len(b.canon) {
					d = canon.Diff(a.canon[k], b.canon[k])
				}
				return fmt.Sprintf("stream %d batch %d: alone %q, concurrently with %d other streams %q\n%s", i, k, a.lines[k], len(g.Streams)-1, b.lines[k], d)
			}
		}
	}
	return ""
}

// TestC16: distinct producer/consumer instances used concurrently behave as
// when run alone (build with -race).
func TestC16(t *testing.T) {
	rec := kit.Get("C16")
	rapid.Check(t, func(t *rapid.T) {
		n := rapid.IntRange(2, 8).Draw(t, "nstreams")
		g := &GroupCase{}
		var shapes []string
		sameOpts := rapid.Bool().Draw(t, "sameopts")
		var shared Options
		if sameOpts {
			shared = genOptions(t, rec)
		}
		for i := 0; i < n; i++ {
			o := shared
			if !sameOpts {
				o = genOptions(t, rec)
			}
			if rapid.IntRange(0, 5).Draw(t, "customlimit") == 0 {
				// arbitrary options: a dictionary limit that is not one of the
				// With*LimitDictIndex capacities, set through a custom Option
				o.Dict = "custom:" + rapid.SampledFrom([]string{"300", "1000", "10", "70000", "1", "255", "256"}).Draw(t, "customn")
			}
			c, _ := genOptionHistory(t, historyPlan{MinBatches: 1, MaxBatches: 5, Interleave: true, Knobs: gen.InDomain()})
			c.Options = o
			g.Streams = append(g.Streams, *c)
			shapes = append(shapes, fmt.Sprintf("%s/%d", o.String(), len(c.Batches)))
		}
		kit.SaveCurrent("C16", g)
		sort.Strings(shapes)
		labels := []string{fmt.Sprintf("streams=%d", n)}
		if sameOpts {
			labels = append(labels, "same_options_all_streams")
		}
		rec.Case(true, strings.Join(shapes, "|"), labels, func() any {
			return map[string]any{"streams": len(g.Streams), "options_and_batches": shapes}
		})
		if msg := groupVerdict(g); msg != "" {
			rec.Fail(t, g, "%s", msg)
		}
	})
}

func replayGroupCases(t *testing.T) {
	cases, err := kit.LoadReplays("C16")
	if err != nil {
		t.Fatalf("loading replays: %v", err)
	}
	var files []string
	for f := range cases {
		files = append(files, f)
	}
	sort.Strings(files)
	for _, path := range files {
		fmt.Printf("REPLAY-START property=C16 file=%s\n", path)
		var g GroupCase
		if err := json.Unmarshal(cases[path], &g); err != nil {
			t.Fatalf("%s: %v", path, err)
		}
		msg := ""
		for round := 0; round < 20 && msg == ""; round++ { // schedule dependent: repeat
			msg = groupVerdict(&g)
		}
		if msg != "" {
			fmt.Printf("REPLAY-FAIL property=C16 file=%s\n%s\n", path, msg)
			t.Errorf("%s: %s", path, msg)
		} else {
			fmt.Printf("REPLAY-OK property=C16 file=%s\n", path)
		}
	}
}

func init() { otherReplays["C16"] = replayGroupCases }
