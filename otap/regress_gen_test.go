package otap

import (
	"fmt"
	"os"
	"path/filepath"
	"testing"

	"go.opentelemetry.io/collector/pdata/pcommon"
	"go.opentelemetry.io/collector/pdata/pmetric"
	"go.opentelemetry.io/collector/pdata/ptrace"

	"verif/kit"
)

// orderingProbe is a trace batch whose attributes defeat every parent-id
// encoding except the one the decoder assumes: equal (key,value) pairs on
// non-adjacent parents, equal keys with different values and types, on spans,
// events, links, resources and scopes.
func orderingProbe() ptrace.Traces {
	td := ptrace.NewTraces()
	for r := 0; r < 3; r++ {
		rs := td.ResourceSpans().AppendEmpty()
		rs.Resource().Attributes().PutStr("host", fmt.Sprint("h", r%2))
		rs.Resource().Attributes().PutInt("zone", int64(r))
		rs.Resource().Attributes().PutStr("common", "c")
		ss := rs.ScopeSpans().AppendEmpty()
		ss.Scope().SetName(fmt.Sprint("scope", r))
		ss.Scope().Attributes().PutStr("common", "c")
		ss.Scope().Attributes().PutBool("flag", r%2 == 0)
		for i := 0; i < 5; i++ {
			sp := ss.Spans().AppendEmpty()
			sp.SetName(fmt.Sprint("span", r, i))
			put := func(m pcommon.Map, salt int) {
				m.PutStr("common", "c")
				m.PutStr("k", fmt.Sprint("v", (i+salt)%2))
				if (i+salt)%3 == 0 {
					m.PutInt("k2", int64(i))
				} else {
					m.PutStr("k2", "s")
				}
				if i%2 == 1 {
					m.PutDouble("d", 1.5)
				}
			}
			put(sp.Attributes(), 0)
			for e := 0; e < 2; e++ {
				ev := sp.Events().AppendEmpty()
				ev.SetName(fmt.Sprint("ev", e))
				put(ev.Attributes(), e)
				lk := sp.Links().AppendEmpty()
				lk.TraceState().FromRaw(fmt.Sprint("l", e))
				put(lk.Attributes(), e+1)
			}
		}
	}
	// items whose only attribute is the same (key,value): adjacent equal rows
	// when the attributes are left unsorted
	rs := td.ResourceSpans().AppendEmpty()
	rs.Resource().Attributes().PutStr("common", "c")
	ss := rs.ScopeSpans().AppendEmpty()
	ss.Scope().Attributes().PutStr("common", "c")
	for i := 0; i < 4; i++ {
		sp := ss.Spans().AppendEmpty()
		sp.SetName(fmt.Sprint("single", i))
		sp.Attributes().PutStr("only", "x")
		for e := 0; e < 2; e++ {
			sp.Events().AppendEmpty().Attributes().PutStr("only", "x")
			sp.Links().AppendEmpty().Attributes().PutStr("only", "x")
		}
	}
	return td
}

// TestWriteRegressions (re)creates hand-built regression cases. It only runs
// when VERIF_WRITE_REGRESSIONS names the target directory.
func TestWriteRegressions(t *testing.T) {
	dir := os.Getenv("VERIF_WRITE_REGRESSIONS")
	if dir == "" {
		t.Skip("VERIF_WRITE_REGRESSIONS not set")
	}
	for _, v := range []int{0, 1, 2, 3} {
		v := v
		c := &StreamCase{Options: Options{OrderAttrs16By: &v}, Batches: []Batch{TracesBatch(orderingProbe()), TracesBatch(orderingProbe())}}
		kit.SaveReplay(filepath.Join(dir, "C04", fmt.Sprintf("d6-attrs16-order-%d.json", v)), "C04", "attribute ordering option must not change decoded content", c)
	}
	for _, g := range []Giant{
		{Family: "spans_with_links", N: 65537, Before: 1, After: 1},
		{Family: "spans_attrs_or_events", N: 70000, After: 1},
		{Family: "spans_with_attrs", N: 65536},
		{Family: "logs_with_attrs", N: 65537, After: 2},
		{Family: "metrics_plain", N: 65537, After: 1},
		{Family: "resources_traces", N: 65537, After: 1},
		{Family: "resources_metrics", N: 65537, Before: 1, After: 1},
	} {
		kit.SaveReplay(filepath.Join(dir, "C08", fmt.Sprintf("d4-giant-%s-%d.json", g.Family, g.N)), "C08", "giant batch around the 16-bit id width: no panic, refused with an error, later batches unaffected", g.toCase())
	}
	{
		// D3: list columns whose first values are all zero
		md := pmetric.NewMetrics()
		sm := md.ResourceMetrics().AppendEmpty().ScopeMetrics().AppendEmpty()
		h := sm.Metrics().AppendEmpty().SetEmptyHistogram().DataPoints().AppendEmpty()
		h.BucketCounts().FromRaw([]uint64{0, 0})
		h.ExplicitBounds().FromRaw([]float64{0})
		e := sm.Metrics().AppendEmpty().SetEmptyExponentialHistogram().DataPoints().AppendEmpty()
		e.Positive().BucketCounts().FromRaw([]uint64{0, 0})
		c := &StreamCase{Batches: []Batch{MetricsBatch(md)}}
		kit.SaveReplay(filepath.Join(dir, "C08", "d3-zero-first-list-columns.json"), "C08", "all-zero first values of a list column", c)
	}
	for _, sig := range []string{Traces, Logs, Metrics} {
		// D15: list / map values longer than the CBOR decoder's default limits
		id := map[string]string{Traces: "C01", Logs: "C02", Metrics: "C03"}[sig]
		c := &StreamCase{Batches: []Batch{{Signal: sig, Synth: "long_list/131073"}}}
		kit.SaveReplay(filepath.Join(dir, id, "d15-list-value-longer-than-131072.json"), id, "list values of more than 131,072 elements round trip", c)
		// the decoder rebuilds a map with one linear Put per entry: a minute per case
		c = &StreamCase{Batches: []Batch{{Signal: sig, Synth: "long_map/131073"}}}
		kit.SaveReplay(filepath.Join(dir, id, "d15-map-value-longer-than-131072.thorough.json"), id, "map values of more than 131,072 entries round trip", c)
	}
	for _, sig := range []string{Traces, Logs, Metrics} {
		// D14: after a valid prefix, a copy of the main payload relabelled as a
		// related type: the second read on the sub-stream freed the main record
		// that was then decoded
		ty := map[string]int32{Traces: 42, Logs: 31, Metrics: 12}[sig]
		seg := Segment{Batches: []Batch{bareBatch(sig, 0), bareBatch(sig, 1)}, Faults: []Fault{{Kind: "dup_relabel", I: 0, Type: ty}}}
		kit.SaveReplay(filepath.Join(dir, "C07", fmt.Sprintf("d14-%s-main-payload-duplicated-and-relabelled.json", sig)), "C07", "main record released before it is decoded", &FaultCase{Segments: []Segment{seg}})
	}
	for _, v := range []int{0, 1, 2, 3, 4} {
		v := v
		c := &StreamCase{Options: Options{OrderAttrs32By: &v}, Batches: []Batch{TracesBatch(orderingProbe()), TracesBatch(orderingProbe())}}
		kit.SaveReplay(filepath.Join(dir, "C04", fmt.Sprintf("d6-attrs32-order-%d.json", v)), "C04", "attribute ordering option must not change decoded content", c)
	}
}
