package otap

import (
	"encoding/json"
	"fmt"
	"sort"
	"strings"
	"testing"

	"go.opentelemetry.io/collector/pdata/plog"
	"go.opentelemetry.io/collector/pdata/pmetric"
	"go.opentelemetry.io/collector/pdata/ptrace"
	"google.golang.org/protobuf/proto"
	"pgregory.net/rapid"

	colarspb "github.com/open-telemetry/otel-arrow/api/experimental/arrow/v1"
	"github.com/open-telemetry/otel-arrow/pkg/otel/arrow_record"

	"verif/kit"
	"verif/otap/canon"
	"verif/otap/gen"
)

// Fault is one payload-level alteration of a BatchArrowRecords.
type Fault struct {
	Kind string `json:"kind"`           // relabel, drop, dup, dup_adjacent, dup_relabel, swap, empty, unknown_id, stale_id
	I    int    `json:"i"`              // payload index
	J    int    `json:"j,omitempty"`    // second index (swap)
	Type int32  `json:"type,omitempty"` // new payload type (relabel)
}

func (f Fault) String() string {
	switch f.Kind {
	case "relabel":
		return fmt.Sprintf("relabel(%d->%d)", f.I, f.Type)
	case "dup_relabel":
		return fmt.Sprintf("dup_relabel(%d as %d)", f.I, f.Type)
	case "swap":
		return fmt.Sprintf("swap(%d,%d)", f.I, f.J)
	default:
		return fmt.Sprintf("%s(%d)", f.Kind, f.I)
	}
}

// Segment is what one producer sends: valid batches, the last of which is
// altered by Faults (if any). A session starts with producer P1 (a valid
// stream prefix and then the damaged batch). Drop / empty / duplicate / re-id
// make P1's sub-streams skip or repeat an IPC message, so any later P1 payload
// would be IPC bytes spliced between sub-streams - outside the property's
// domain. Follow-up batches therefore come from fresh producers P2, P3 ...
// whose schema ids are renamed into an unused namespace: well-formed,
// self-contained new sub-streams of the same payload types.
type Segment struct {
	Batches []Batch `json:"batches"`
	Faults  []Fault `json:"faults,omitempty"`
}

// FaultCase is a consumer session.
type FaultCase struct {
	Segments []Segment `json:"segments"`
}

type preparedBatch struct {
	signal string
	bar    *colarspb.BatchArrowRecords
	want   []string
	keys   []string // Input.Keys of the encoded batch
	items  int
}

// prepare encodes every segment with its own producer (once; faults are
// applied to clones) and renames the schema ids of segment k>0.
func prepare(fc *FaultCase) ([][]preparedBatch, error) {
	var out [][]preparedBatch
	for k, seg := range fc.Segments {
		res, err := RunStream(&StreamCase{Batches: seg.Batches}, RunConfig{KeepBAR: true})
		if err != nil {
			return nil, err
		}
		var pbs []preparedBatch
		for bi, b := range res.Batches {
			if b.BAR == nil {
				break // producer refused / panicked: C08's business; the segment ends here
			}
			var keys []string
			if in, err := seg.Batches[bi].Decode(); err == nil {
				keys = in.Keys()
			}
			if k > 0 {
				for _, pl := range b.BAR.ArrowPayloads {
					pl.SchemaId = fmt.Sprintf("p%d-%s", k+1, pl.SchemaId)
				}
			}
			pbs = append(pbs, preparedBatch{signal: b.Signal, bar: b.BAR, want: b.Want, keys: keys, items: b.Items})
		}
		out = append(out, pbs)
	}
	return out, nil
}

// applyFaults returns the altered clone, whether the main payload (index 0)
// was damaged by any fault (relabelled, dropped, emptied, re-id'd, or made
// ambiguous by another payload relabelled to the main type), how many intact
// copies of the main record the batch holds (duplication faults), and whether
// every fault was applicable.
func applyFaults(bar *colarspb.BatchArrowRecords, faults []Fault, retired []string) (*colarspb.BatchArrowRecords, bool, int, bool, bool) {
	b, mainTouched, mainCopies, mustNotSucceed, _, ok := applyFaultsX(bar, faults, retired)
	return b, mainTouched, mainCopies, mustNotSucceed, ok
}

// applyFaultsX additionally reports whether the main record is IMPERSONATED:
// it is in the batch with intact bytes and schema id under another label
// while a payload that is not a main record carries the main label.
func applyFaultsX(bar *colarspb.BatchArrowRecords, faults []Fault, retired []string) (*colarspb.BatchArrowRecords, bool, int, bool, bool, bool) {
	b := proto.Clone(bar).(*colarspb.BatchArrowRecords)
	// role of every payload currently in the batch: the main record, an
	// intact copy of it (duplication faults), or another payload
	const (
		other = iota
		mainRec
		mainCopy
		// the main record (or a copy), bytes and schema id intact, under
		// another label
		mainRelabelled
	)
	copyRole := func(r int) int {
		if r == mainRec {
			return mainCopy
		}
		return r
	}
	roles := make([]int, len(b.ArrowPayloads))
	roles[0] = mainRec
	mainType := bar.ArrowPayloads[0].Type
	mainTouched := false
	damage := func(i int) {
		// a fault altered payload i itself: if it is the main record or one of
		// its copies, no item count is demanded any more
		if roles[i] == mainRec || roles[i] == mainCopy {
			mainTouched = true
		}
		roles[i] = other
	}
	unmain := func(i int) {
		// payload i stops being a main record (emptied): one intact copy fewer;
		// when none is left the batch has no main record any more
		roles[i] = other
	}
	for _, f := range faults {
		n := len(b.ArrowPayloads)
		if f.I < 0 || f.I >= n {
			return nil, false, 0, false, false, false
		}
		pl := b.ArrowPayloads[f.I]
		switch f.Kind {
		case "relabel":
			if colarspb.ArrowPayloadType(f.Type) == pl.Type {
				return nil, false, 0, false, false, false
			}
			pl.Type = colarspb.ArrowPayloadType(f.Type)
			if colarspb.ArrowPayloadType(f.Type) == mainType {
				mainTouched = true // a second "main" record that is none: the batch is ambiguous
			} else if roles[f.I] != other {
				roles[f.I] = mainRelabelled // still present in the batch, under another label
			}
		case "drop":
			if roles[f.I] == mainRec {
				mainTouched = true
			}
			// dropping an intact COPY just removes one copy
			b.ArrowPayloads = append(b.ArrowPayloads[:f.I:f.I], b.ArrowPayloads[f.I+1:]...)
			roles = append(roles[:f.I:f.I], roles[f.I+1:]...)
		case "dup":
			b.ArrowPayloads = append(b.ArrowPayloads, proto.Clone(pl).(*colarspb.ArrowPayload))
			roles = append(roles, copyRole(roles[f.I]))
		case "dup_relabel":
			// a copy of payload i, relabelled, appended: the two faults
			// "duplicated" and "relabelled" on one payload
			if colarspb.ArrowPayloadType(f.Type) == pl.Type {
				return nil, false, 0, false, false, false
			}
			cl := proto.Clone(pl).(*colarspb.ArrowPayload)
			cl.Type = colarspb.ArrowPayloadType(f.Type)
			b.ArrowPayloads = append(b.ArrowPayloads, cl)
			if colarspb.ArrowPayloadType(f.Type) == mainType {
				roles = append(roles, other)
				mainTouched = true // a second "main" record that is none
			} else if roles[f.I] != other {
				roles = append(roles, mainRelabelled) // the main record once more, under another label
			} else {
				roles = append(roles, other)
			}
		case "dup_adjacent":
			cl := proto.Clone(pl).(*colarspb.ArrowPayload)
			rest := append([]*colarspb.ArrowPayload{cl}, b.ArrowPayloads[f.I+1:]...)
			b.ArrowPayloads = append(b.ArrowPayloads[:f.I+1:f.I+1], rest...)
			rrest := append([]int{copyRole(roles[f.I])}, roles[f.I+1:]...)
			roles = append(roles[:f.I+1:f.I+1], rrest...)
		case "swap":
			if f.J < 0 || f.J >= n || f.J == f.I {
				return nil, false, 0, false, false, false
			}
			b.ArrowPayloads[f.I], b.ArrowPayloads[f.J] = b.ArrowPayloads[f.J], b.ArrowPayloads[f.I]
			roles[f.I], roles[f.J] = roles[f.J], roles[f.I]
		case "empty":
			pl.Record = nil
			unmain(f.I)
		case "unknown_id":
			pl.SchemaId = fmt.Sprintf("unknown-%d-%s", f.I, pl.SchemaId)
			damage(f.I)
		case "stale_id":
			if len(retired) == 0 {
				return nil, false, 0, false, false, false
			}
			pl.SchemaId = retired[f.J%len(retired)]
			damage(f.I)
		default:
			return nil, false, 0, false, false, false
		}
	}
	mainCopies, relabelled, labelledMain := 0, 0, 0
	for i, r := range roles {
		switch r {
		case mainRec, mainCopy:
			mainCopies++
		case mainRelabelled:
			relabelled++
		}
		if b.ArrowPayloads[i].Type == mainType {
			labelledMain++
		}
	}
	if mainCopies == 0 {
		mainTouched = true
	}
	// The main record is in the batch, bytes intact, but no payload carries the
	// main label: whatever the consumer makes of the other payloads, "success"
	// would discard a main record that was present.
	mustNotSucceed := mainCopies == 0 && relabelled > 0 && labelledMain == 0
	impersonated := mainCopies == 0 && relabelled > 0 && labelledMain > 0
	return b, mainTouched, mainCopies, mustNotSucceed, impersonated, true
}

// containsAll reports whether the sorted multiset got contains the sorted
// multiset want.
func containsAll(got, want []string) bool {
	i := 0
	for _, w := range want {
		for i < len(got) && got[i] < w {
			i++
		}
		if i >= len(got) || got[i] != w {
			return false
		}
		i++
	}
	return true
}

type sessionStats struct {
	faultedDecodes int
	outcomes       map[string]int
	liveReaders    int
}

// runSession feeds the prepared session to one consumer. faults[k] replaces
// the fault list of segment k. Oracle:
//
//	(a) no panic anywhere in the session (including Close);
//	(b) damaged batch: if the call succeeds and the main payload was not
//	    damaged by any fault, the number of decoded items equals the row count
//	    of the main record times the number of copies of it present in the
//	    batch (the remainder may lack attributes, never the items of a main
//	    record that was present: a duplicated main payload is two main records);
//	(c) an unaltered batch on sub-streams that are intact decodes without
//	    error to the telemetry that was encoded.
func runSession(prep [][]preparedBatch, faults [][]Fault, st *sessionStats) string {
	cons := arrow_record.NewConsumer()
	msg := ""
	seenIDs := map[colarspb.ArrowPayloadType][]string{} // per payload type, schema ids in order of appearance
	var retired []string
	note := func(bar *colarspb.BatchArrowRecords) {
		for _, pl := range bar.ArrowPayloads {
			ids := seenIDs[pl.Type]
			if len(ids) == 0 || ids[len(ids)-1] != pl.SchemaId {
				if len(ids) > 0 {
					retired = append(retired, ids[len(ids)-1])
				}
				seenIDs[pl.Type] = append(ids, pl.SchemaId)
			}
		}
	}
outer:
	for k, seg := range prep {
		for j, pb := range seg {
			last := j == len(seg)-1
			if last && k < len(faults) && len(faults[k]) > 0 {
				fb, mainTouched, mainCopies, mustNotSucceed, impersonated, ok := applyFaultsX(pb.bar, faults[k], retired)
				if !ok {
					// inapplicable fault list: treat the batch as unaltered
					fb, mainTouched, mainCopies, mustNotSucceed, impersonated = proto.Clone(pb.bar).(*colarspb.BatchArrowRecords), false, 1, false, false
					faults[k] = nil
				}
				if len(faults[k]) > 0 {
					if st != nil {
						st.faultedDecodes++
						st.liveReaders = len(seenIDs)
					}
					d := Decode(cons, pb.signal, fb)
					cls := "error"
					switch {
					case d.Panic != nil:
						msg = fmt.Sprintf("segment %d batch %d (%s) damaged by %v: consumer panicked: %s", k, j, pb.signal, faults[k], d.Panic)
						break outer
					case d.Err == nil && mustNotSucceed:
						msg = fmt.Sprintf("segment %d batch %d (%s) damaged by %v: consumer returned success (%d items) although the batch held its main record of %d items under another label and no payload with the main label (a main record that was present was discarded)", k, j, pb.signal, faults[k], d.Items, pb.items)
						break outer
					case d.Err == nil && impersonated && !containsAll(d.Keys, pb.keys):
						msg = fmt.Sprintf("segment %d batch %d (%s) damaged by %v: consumer returned success (%d items) although the batch held its main record of %d items, bytes intact, under another label while another payload wore the main label - and the items of the main record are not in the result (a main record that was present was discarded)", k, j, pb.signal, faults[k], d.Items, pb.items)
						break outer
					case d.Err == nil && !mainTouched && d.Items != pb.items*mainCopies:
						msg = fmt.Sprintf("segment %d batch %d (%s) damaged by %v: consumer returned success with %d items although the batch held %d intact main record(s) of %d items each (a main record that was present was discarded)", k, j, pb.signal, faults[k], d.Items, mainCopies, pb.items)
						break outer
					case d.Err == nil && d.Items == pb.items*mainCopies:
						cls = "ok_all_items"
					case d.Err == nil:
						cls = "ok_main_touched"
					}
					if st != nil {
						st.outcomes[cls]++
					}
					break // nothing more from this producer
				}
			}
			note(pb.bar)
			d := Decode(cons, pb.signal, proto.Clone(pb.bar).(*colarspb.BatchArrowRecords))
			if d.Panic != nil {
				msg = fmt.Sprintf("segment %d batch %d (%s, well-formed, fresh sub-streams): consumer panicked: %s", k, j, pb.signal, d.Panic)
				break outer
			}
			if d.Err != nil {
				msg = fmt.Sprintf("segment %d batch %d (%s, well-formed, fresh sub-streams): consumer refused it: %v", k, j, pb.signal, d.Err)
				break outer
			}
			if diff := canon.Diff(pb.want, d.Canon); diff != "" {
				msg = fmt.Sprintf("segment %d batch %d (%s, well-formed, fresh sub-streams): %s", k, j, pb.signal, diff)
				break outer
			}
		}
	}
	if pn := catch(func() { _ = cons.Close() }); pn != nil && msg == "" {
		msg = "Consumer.Close panicked after the session: " + pn.String()
	}
	return msg
}

func faultVerdict(fc *FaultCase) string {
	prep, err := prepare(fc)
	if err != nil {
		return "harness: " + err.Error()
	}
	faults := make([][]Fault, len(fc.Segments))
	damaged := 0
	for k := range fc.Segments {
		faults[k] = append([]Fault(nil), fc.Segments[k].Faults...)
		if len(faults[k]) > 0 {
			damaged++
		}
	}
	if damaged > 1 {
		// outside the quantifier ("a valid stream prefix followed by ONE
		// altered batch"): not judged
		fmt.Printf("NOTE: case damages %d batches; C07 quantifies over one damaged batch per session - not judged\n", damaged)
		return ""
	}
	return runSession(prep, faults, nil)
}

var relabelTargets = func() []int32 {
	var ts []int32
	for v := range colarspb.ArrowPayloadType_name {
		ts = append(ts, v)
	}
	ts = append(ts, 3, 26, 46, 99, -1) // undefined enum values
	sort.Slice(ts, func(i, j int) bool { return ts[i] < ts[j] })
	return ts
}()

// retiredBefore lists the schema ids the valid prefix of the first producer has
// retired before its last batch, in order of retirement (the same bookkeeping
// as runSession's note).
func retiredBefore(seg []preparedBatch) []string {
	seen := map[colarspb.ArrowPayloadType]string{}
	var retired []string
	for j := 0; j < len(seg)-1; j++ {
		for _, pl := range seg[j].bar.ArrowPayloads {
			if last, ok := seen[pl.Type]; ok && last != pl.SchemaId {
				retired = append(retired, last)
			}
			seen[pl.Type] = pl.SchemaId
		}
	}
	return retired
}

// singleFaults enumerates every single fault applicable to a batch with np
// payloads after a prefix that retired nretired schema ids.
func singleFaults(np, nretired int) []Fault {
	var fs []Fault
	for i := 0; i < np; i++ {
		for _, ty := range relabelTargets {
			fs = append(fs, Fault{Kind: "relabel", I: i, Type: ty})
			fs = append(fs, Fault{Kind: "dup_relabel", I: i, Type: ty})
		}
		for _, k := range []string{"drop", "dup", "dup_adjacent", "empty", "unknown_id"} {
			fs = append(fs, Fault{Kind: k, I: i})
		}
		// every retired id on every payload (at least two tries, so that the
		// fault is also enumerated - and found inapplicable - without retired ids)
		for j := 0; j < nretired || j < 2; j++ {
			if j >= 48 {
				break
			}
			fs = append(fs, Fault{Kind: "stale_id", I: i, J: j})
		}
		for j := i + 1; j < np; j++ {
			fs = append(fs, Fault{Kind: "swap", I: i, J: j})
		}
	}
	return fs
}

func genFault(t *rapid.T, np int) Fault {
	f := Fault{Kind: rapid.SampledFrom([]string{"relabel", "relabel", "drop", "dup", "dup_adjacent", "dup_relabel", "swap", "empty", "unknown_id", "stale_id"}).Draw(t, "fkind")}
	f.I = rapid.IntRange(0, np-1).Draw(t, "fi")
	switch f.Kind {
	case "relabel", "dup_relabel":
		f.Type = rapid.SampledFrom(relabelTargets).Draw(t, "ftype")
	case "swap":
		f.J = rapid.IntRange(0, np-1).Draw(t, "fj")
	case "stale_id":
		f.J = rapid.IntRange(0, 47).Draw(t, "fj")
	}
	return f
}

// genFaults draws a fault combination. Later faults may address the payloads
// that earlier faults appended (a copy that is then relabelled, re-id'd,
// emptied, swapped to the front ...).
func genFaults(t *rapid.T, np, nf int) []Fault {
	var fs []Fault
	n := np
	for x := 0; x < nf && n > 0; x++ {
		f := genFault(t, n)
		fs = append(fs, f)
		switch f.Kind {
		case "dup", "dup_adjacent", "dup_relabel":
			n++
		case "drop":
			n--
		}
	}
	return fs
}

// genSegmentBatches draws the batches of one producer. evolve makes the first
// batch bland and later batches richer, so that schema ids get retired (needed
// for the stale-id fault).
func genSegmentBatches(t *rapid.T, signal string, nb int) []Batch {
	s := gen.NewStream(t, gen.InDomain(), nb+1)
	var out []Batch
	for b := 0; b < nb; b++ {
		s.B = b
		var bt Batch
		switch rapid.IntRange(0, 3).Draw(t, "canned") {
		case 0:
			bt = cannedBatch(signal, b)
		case 1:
			bt = bareBatch(signal, b)
		default:
			bt = genBatch(s, signal)
		}
		out = append(out, bt)
	}
	return out
}

// bareBatch is the opposite of cannedBatch: items without any attribute,
// event, link or exemplar, so that the main payload is the only payload of the
// batch and every related sub-stream of the consumer is still unopened.
func bareBatch(signal string, salt int) Batch {
	switch signal {
	case Traces:
		td := ptrace.NewTraces()
		ss := td.ResourceSpans().AppendEmpty().ScopeSpans().AppendEmpty()
		for i := 0; i < 3; i++ {
			ss.Spans().AppendEmpty().SetName(fmt.Sprint("bare", salt, i))
		}
		return TracesBatch(td)
	case Logs:
		ld := plog.NewLogs()
		sl := ld.ResourceLogs().AppendEmpty().ScopeLogs().AppendEmpty()
		for i := 0; i < 3; i++ {
			sl.LogRecords().AppendEmpty().Body().SetStr(fmt.Sprint("bare", salt, i))
		}
		return LogsBatch(ld)
	default:
		md := pmetric.NewMetrics()
		sm := md.ResourceMetrics().AppendEmpty().ScopeMetrics().AppendEmpty()
		for i := 0; i < 3; i++ {
			m := sm.Metrics().AppendEmpty()
			m.SetName(fmt.Sprint("bare", salt, i))
			m.SetEmptyGauge().DataPoints().AppendEmpty().SetIntValue(int64(i))
		}
		return MetricsBatch(md)
	}
}

// cannedBatch is a batch that is guaranteed to produce every related payload
// type of its signal (rich enough for the enumeration to hit all of them).
func cannedBatch(signal string, salt int) Batch {
	in := smallValid(signal, salt)
	switch signal {
	case Traces:
		sp := in.Traces.ResourceSpans().At(0).ScopeSpans().At(0).Spans().At(0)
		sp.Events().At(0).Attributes().PutStr("ea", "x")
		sp.Links().At(0).Attributes().PutStr("la", "x")
		in.Traces.ResourceSpans().At(0).ScopeSpans().At(0).Scope().Attributes().PutStr("s", "x")
		return TracesBatch(in.Traces)
	case Logs:
		in.Logs.ResourceLogs().At(0).ScopeLogs().At(0).Scope().Attributes().PutStr("s", "x")
		return LogsBatch(in.Logs)
	default:
		sm := in.Metrics.ResourceMetrics().At(0).ScopeMetrics().At(0)
		sm.Scope().Attributes().PutStr("s", "x")
		ex := sm.Metrics().At(0).Gauge().DataPoints().At(0).Exemplars().AppendEmpty()
		ex.SetIntValue(3)
		ex.FilteredAttributes().PutStr("e", "f")
		h := sm.Metrics().AppendEmpty()
		h.SetName("h")
		hp := h.SetEmptyHistogram().DataPoints().AppendEmpty()
		hp.SetCount(3)
		hp.BucketCounts().FromRaw([]uint64{1, 2})
		hp.ExplicitBounds().FromRaw([]float64{1})
		hp.Attributes().PutStr("a", "b")
		hx := hp.Exemplars().AppendEmpty()
		hx.SetDoubleValue(2)
		hx.FilteredAttributes().PutStr("e", "f")
		e := sm.Metrics().AppendEmpty()
		e.SetName("e")
		ep := e.SetEmptyExponentialHistogram().DataPoints().AppendEmpty()
		ep.SetCount(3)
		ep.Positive().SetOffset(1)
		ep.Positive().BucketCounts().FromRaw([]uint64{1, 2})
		ep.Attributes().PutStr("a", "b")
		epx := ep.Exemplars().AppendEmpty()
		epx.SetIntValue(1)
		epx.FilteredAttributes().PutStr("e", "f")
		s := sm.Metrics().AppendEmpty()
		s.SetName("s")
		spt := s.SetEmptySummary().DataPoints().AppendEmpty()
		spt.SetCount(1)
		spt.QuantileValues().AppendEmpty().SetValue(1)
		spt.Attributes().PutStr("a", "b")
		return MetricsBatch(in.Metrics)
	}
}

// TestC07 draws a session (valid prefix from P1 + follow-up producers),
// enumerates EVERY single payload-level fault on the last P1 batch, and then
// tries random fault combinations (also on the follow-up producers).
func TestC07(t *testing.T) {
	rec := kit.Get("C07")
	rapid.Check(t, func(t *rapid.T) {
		signal := rapid.SampledFrom([]string{Traces, Logs, Metrics}).Draw(t, "signal")
		depth := rapid.IntRange(0, 3).Draw(t, "depth")
		if pct(t, "deep", 15) {
			// a long valid prefix: many schema changes, two-digit schema ids,
			// many retired readers
			depth = rapid.IntRange(4, 10).Draw(t, "deepdepth")
		}
		fc := &FaultCase{}
		fc.Segments = append(fc.Segments, Segment{Batches: genSegmentBatches(t, signal, depth+1)})
		nfollow := rapid.IntRange(0, 2).Draw(t, "nfollow")
		for k := 0; k < nfollow; k++ {
			sig := signal
			if rapid.IntRange(0, 3).Draw(t, "othersig") == 0 {
				sig = rapid.SampledFrom([]string{Traces, Logs, Metrics}).Draw(t, "fsig")
			}
			fc.Segments = append(fc.Segments, Segment{Batches: genSegmentBatches(t, sig, rapid.IntRange(1, 2).Draw(t, "fnb"))})
		}
		prep, err := prepare(fc)
		if err != nil {
			t.Fatalf("harness: %v", err)
		}
		if len(prep[0]) == 0 {
			t.Skip("producer refused the first batch")
		}
		target := prep[0][len(prep[0])-1]
		np := len(target.bar.ArrowPayloads)
		st := &sessionStats{outcomes: map[string]int{}}
		types := map[string]bool{}
		for _, pl := range target.bar.ArrowPayloads {
			types[pl.Type.String()] = true
		}
		report := func(faults [][]Fault, msg string) {
			bad := &FaultCase{}
			for k, seg := range fc.Segments {
				s := Segment{Batches: seg.Batches}
				if k < len(faults) {
					s.Faults = faults[k]
				}
				bad.Segments = append(bad.Segments, s)
			}
			rec.Fail(t, bad, "%s", msg)
		}
		// exhaustive: every single fault on the damaged batch
		kinds := map[string]int{}
		for _, f := range singleFaults(np, len(retiredBefore(prep[0]))) {
			faults := make([][]Fault, len(fc.Segments))
			faults[0] = []Fault{f}
			before := st.faultedDecodes
			msg := runSession(prep, faults, st)
			if st.faultedDecodes > before {
				kinds[f.Kind]++
				shape := fmt.Sprintf("%s/d%d/%s/%s", signal, len(prep[0])-1, f.Kind, target.bar.ArrowPayloads[f.I].Type)
				rec.Case(len(prep[0]) > 1 || f.Kind != "stale_id", shape, nil, func() any {
					return map[string]any{"signal": signal, "valid_prefix_batches": len(prep[0]) - 1, "payloads_in_damaged_batch": np, "fault": f.String(), "follow_up_producers": nfollow}
				})
			}
			if msg != "" {
				report(faults, msg)
			}
		}
		// coordinated pairs: another payload IMPERSONATES the main record - the
		// main payload is dropped, emptied or given the other payload's label
		// while payload j is relabelled to the main type (only "no panic" is
		// demanded of them)
		mainTy := int32(target.bar.ArrowPayloads[0].Type)
		for j := 1; j < np; j++ {
			tj := int32(target.bar.ArrowPayloads[j].Type)
			for _, pair := range [][]Fault{
				{{Kind: "relabel", I: j, Type: mainTy}, {Kind: "drop", I: 0}},
				{{Kind: "relabel", I: j, Type: mainTy}, {Kind: "empty", I: 0}},
				{{Kind: "relabel", I: 0, Type: tj}, {Kind: "relabel", I: j, Type: mainTy}},
				{{Kind: "relabel", I: j, Type: mainTy}, {Kind: "swap", I: 0, J: j}},
			} {
				faults := make([][]Fault, len(fc.Segments))
				faults[0] = pair
				msg := runSession(prep, faults, st)
				rec.Case(true, fmt.Sprintf("%s/d%d/impersonation/%s/%s", signal, len(prep[0])-1, pair[1].Kind, target.bar.ArrowPayloads[j].Type), []string{"main_record_impersonated"}, nil)
				if msg != "" {
					report(faults, msg)
				}
			}
		}
		// random combinations, also on follow-up producers
		ncombo := rapid.IntRange(4, 12).Draw(t, "ncombo")
		for c := 0; c < ncombo; c++ {
			faults := make([][]Fault, len(fc.Segments))
			nf := rapid.IntRange(2, 3).Draw(t, "nf")
			faults[0] = genFaults(t, np, nf)
			// The quantifier is "a valid stream prefix followed by ONE batch
			// altered by any combination of faults": exactly one batch of a
			// session is damaged. Sometimes it is the last batch of a follow-up
			// producer instead (then the valid prefix spans several producers).
			if len(prep) > 1 && rapid.IntRange(0, 3).Draw(t, "damagefollow") == 0 {
				k := rapid.IntRange(1, len(prep)-1).Draw(t, "damagek")
				if len(prep[k]) > 0 {
					npk := len(prep[k][len(prep[k])-1].bar.ArrowPayloads)
					nfk := rapid.IntRange(1, 3).Draw(t, "nfk")
					faults[0] = nil
					faults[k] = genFaults(t, npk, nfk)
				}
			}
			msg := runSession(prep, faults, st)
			var fs []string
			for _, fk := range faults {
				for _, f := range fk {
					fs = append(fs, f.Kind)
				}
			}
			sort.Strings(fs)
			rec.Case(true, fmt.Sprintf("%s/d%d/combo/%s", signal, len(prep[0])-1, strings.Join(fs, "+")), []string{"fault_combination"}, nil)
			if msg != "" {
				report(faults, msg)
			}
		}
		rec.Label("sessions", 1)
		rec.Label("signal="+signal, 1)
		rec.Label(fmt.Sprintf("valid_prefix_batches=%d", len(prep[0])-1), 1)
		rec.Label("follow_up_producers="+fmt.Sprint(nfollow), 1)
		for k, v := range kinds {
			rec.Label("single_fault:"+k, v)
		}
		for k, v := range st.outcomes {
			rec.Label("outcome:"+k, v)
		}
		for ty := range types {
			rec.Label("damaged_batch_has:"+ty, 1)
		}
	})
}

func replayFaultCases(t *testing.T) {
	cases, err := kit.LoadReplays("C07")
	if err != nil {
		t.Fatalf("loading replays: %v", err)
	}
	var files []string
	for f := range cases {
		files = append(files, f)
	}
	sort.Strings(files)
	for _, path := range files {
		fmt.Printf("REPLAY-START property=C07 file=%s\n", path)
		var fc FaultCase
		if err := json.Unmarshal(cases[path], &fc); err != nil {
			t.Fatalf("%s: %v", path, err)
		}
		if msg := faultVerdict(&fc); msg != "" {
			fmt.Printf("REPLAY-FAIL property=C07 file=%s\n%s\n", path, msg)
			t.Errorf("%s: %s", path, msg)
		} else {
			fmt.Printf("REPLAY-OK property=C07 file=%s\n", path)
		}
	}
}

func init() { otherReplays["C07"] = replayFaultCases }
