package otap

import (
	"fmt"
	"strconv"
	"strings"
	"testing"

	"go.opentelemetry.io/collector/pdata/plog"
	"go.opentelemetry.io/collector/pdata/pmetric"
	"go.opentelemetry.io/collector/pdata/ptrace"
	"pgregory.net/rapid"

	"verif/kit"
	"verif/otap/canon"
	"verif/otap/gen"
)

// noPanicVerdict is the C08 oracle on a stream run: every producer call
// returned (a batch or an error).
func noPanicVerdict(res *StreamResult) string {
	for i, b := range res.Batches {
		if b.EncodePanic != nil {
			return fmt.Sprintf("batch %d (%s, %d items): producer panicked: %s", i, b.Signal, b.Items, b.EncodePanic)
		}
	}
	if res.ClosePan != nil {
		return "Producer.Close panicked: " + res.ClosePan.String()
	}
	return ""
}

func c08Verdict(c *StreamCase) string {
	if g, ok := isGiantCase(c); ok {
		return giantVerdict(g)
	}
	res, err := RunStream(c, RunConfig{})
	if err != nil {
		return "harness: " + err.Error()
	}
	return noPanicVerdict(res)
}

func init() { streamVerdicts["C08"] = c08Verdict }

// hostileKnobs lifts every domain restriction of C01-C03: invalid UTF-8,
// timestamps >= 2^63, nesting beyond 16.
func hostileKnobs() gen.Knobs {
	return gen.Knobs{MaxDepth: 16, Hostile: true, Siblings: true, Deep: true}
}

// TestC08: encoding any OTLP value returns a batch or an error, whatever the
// stream carried before and whatever the producer options.
func TestC08(t *testing.T) {
	rec := kit.Get("C08")
	rapid.Check(t, func(t *rapid.T) {
		o := genOptions(t, rec)
		// (the statistics and dump options are debugging aids outside the
		// functional option space: not drawn here, see DESIGN.md section 10-19)
		genExtraOptions(t, &o, false)
		c, s := genOptionHistory(t, historyPlan{MinBatches: 1, MaxBatches: 5, Interleave: true, Knobs: hostileKnobs()})
		c.Options = o
		res, err := RunStream(c, RunConfig{})
		if err != nil {
			t.Fatalf("harness: %v", err)
		}
		labels := append(optionLabels(o), transitionLabels(res)...)
		newCol := false
		refusedBefore := false
		afterRefused := false
		for _, b := range res.Batches {
			if refusedBefore {
				afterRefused = true
			}
			if b.EncodeErr != nil {
				refusedBefore = true
				labels = append(labels, "producer_refused_batch")
			}
			for _, e := range b.NewEvents {
				if e == "new_field" {
					newCol = true
				}
			}
		}
		if afterRefused {
			labels = append(labels, "batch_after_refused_batch")
		}
		for k, v := range s.Stats {
			if v > 0 {
				labels = append(labels, "gen:"+k)
			}
		}
		var shapes []string
		for i, b := range res.Batches {
			shapes = append(shapes, b.Signal[:1]+bucket(b.Items)+strings.Join(b.NewEvents, "+"))
			_ = i
		}
		rec.Case(newCol || afterRefused, o.String()+"#"+strings.Join(shapes, "|"), labels, sampleOf(c, res))
		if msg := noPanicVerdict(res); msg != "" {
			rec.Fail(t, c, "options %s: %s", o, msg)
		}
	})
}

// ---------------------------------------------------------------------------
// Giants: batches around the width of the 16-bit ids.

// Giant describes a batch family by construction parameters (the OTLP bytes of
// a 70,000-span batch would make a useless replay file).
type Giant struct {
	Family   string `json:"family"`   // see buildGiant
	N        int    `json:"n"`        // number of parents
	Before   int    `json:"before"`   // small valid batches sent first
	After    int    `json:"after"`    // small valid batches sent afterwards
	SmallSig string `json:"smallsig"` // signal of the small batches ("" = same as the giant)
}

// toCase wraps a Giant into a StreamCase so that the same replay plumbing is
// used: Options.Dict carries a marker with the construction parameters.
func (g Giant) toCase() *StreamCase {
	return &StreamCase{Options: Options{Dict: "giant:" + g.String()}}
}

func (g Giant) String() string {
	return fmt.Sprintf("%s/%d/%d/%d/%s", g.Family, g.N, g.Before, g.After, g.SmallSig)
}

func isGiantCase(c *StreamCase) (Giant, bool) {
	if !strings.HasPrefix(c.Options.Dict, "giant:") {
		return Giant{}, false
	}
	p := strings.Split(strings.TrimPrefix(c.Options.Dict, "giant:"), "/")
	if len(p) != 5 {
		return Giant{}, false
	}
	n, _ := strconv.Atoi(p[1])
	b, _ := strconv.Atoi(p[2])
	a, _ := strconv.Atoi(p[3])
	return Giant{Family: p[0], N: n, Before: b, After: a, SmallSig: p[4]}, true
}

var giantFamilies = []string{
	"spans_with_attrs", "spans_with_events", "spans_with_links", "spans_attrs_or_events", "spans_plain",
	"logs_with_attrs", "logs_plain", "metrics_plain", "metrics_with_points", "resources_traces", "resources_logs", "resources_metrics",
	"scopes_traces", "scopes_logs", "scopes_metrics",
	// N (resource, scope) groups made of the SAME 256 scopes under N/256
	// resources: few distinct scopes, many scope ids
	"sharedscopes_traces", "sharedscopes_logs", "sharedscopes_metrics",
	// children tables (32-bit ids): one parent with N attribute-bearing
	// children - representable, so no refusal is demanded; no panic is
	"events_with_attrs", "links_with_attrs", "points_with_attrs", "exemplars_with_attrs",
	// N parents of a 32-bit children table: one metric with N data points,
	// each carrying one exemplar (number, histogram, exp-histogram tables)
	"points_each_with_exemplar", "hpoints_each_with_exemplar", "ehpoints_each_with_exemplar",
	// N spans-with-events spread over few spans is impossible (16-bit span
	// ids), but N events that each carry attributes under 64 spans is
	"events_with_attrs_many_spans",
}

func giantSignal(family string) string {
	switch family {
	case "events_with_attrs", "links_with_attrs", "events_with_attrs_many_spans":
		return Traces
	case "points_with_attrs", "exemplars_with_attrs", "points_each_with_exemplar", "hpoints_each_with_exemplar", "ehpoints_each_with_exemplar":
		return Metrics
	}
	switch {
	case strings.HasPrefix(family, "spans"), strings.HasSuffix(family, "_traces"):
		return Traces
	case strings.HasPrefix(family, "logs"), strings.HasSuffix(family, "_logs"):
		return Logs
	default:
		return Metrics
	}
}

// overWidth reports whether the batch has more parents than a 16-bit id can
// number, i.e. must be refused; representable=false for exactly 65,536 where
// either outcome is accepted (ids 0..65535 would fit, the accumulators stop at
// 65,535 groups).
func (g Giant) mustRefuse() bool {
	switch g.Family {
	case "spans_plain", "logs_plain":
		return false // no attribute-bearing parents: nothing to number
	case "events_with_attrs", "links_with_attrs", "points_with_attrs", "exemplars_with_attrs",
		"points_each_with_exemplar", "hpoints_each_with_exemplar", "ehpoints_each_with_exemplar", "events_with_attrs_many_spans":
		return false // 32-bit ids: representable
	case "sharedscopes_traces", "sharedscopes_logs", "sharedscopes_metrics":
		return false // whether scope ids number distinct scopes or groups is the encoder's choice
	}
	return g.N > 65536
}

func (g Giant) mustAccept() bool {
	switch g.Family {
	case "spans_plain", "logs_plain":
		return true
	case "events_with_attrs", "links_with_attrs", "points_with_attrs", "exemplars_with_attrs",
		"points_each_with_exemplar", "hpoints_each_with_exemplar", "ehpoints_each_with_exemplar", "events_with_attrs_many_spans":
		return false // either outcome is accepted, only a panic is not
	case "sharedscopes_traces", "sharedscopes_logs", "sharedscopes_metrics":
		return false
	}
	return g.N <= 65535
}

func buildGiant(g Giant) Input {
	n := g.N
	switch g.Family {
	case "events_with_attrs", "links_with_attrs":
		td := ptrace.NewTraces()
		sp := td.ResourceSpans().AppendEmpty().ScopeSpans().AppendEmpty().Spans().AppendEmpty()
		sp.SetName("s")
		for i := 0; i < n; i++ {
			if g.Family == "events_with_attrs" {
				ev := sp.Events().AppendEmpty()
				ev.SetName("e")
				ev.Attributes().PutInt("i", int64(i%7))
			} else {
				lk := sp.Links().AppendEmpty()
				lk.Attributes().PutInt("i", int64(i%7))
			}
		}
		return Input{Signal: Traces, Traces: td}
	case "events_with_attrs_many_spans":
		td := ptrace.NewTraces()
		ss := td.ResourceSpans().AppendEmpty().ScopeSpans().AppendEmpty()
		for i := 0; i < n; i++ {
			if i%((n+63)/64) == 0 {
				ss.Spans().AppendEmpty().SetName("s")
			}
			ev := ss.Spans().At(ss.Spans().Len() - 1).Events().AppendEmpty()
			ev.SetName("e")
			ev.Attributes().PutInt("i", int64(i%7))
		}
		return Input{Signal: Traces, Traces: td}
	case "points_each_with_exemplar", "hpoints_each_with_exemplar", "ehpoints_each_with_exemplar":
		md := pmetric.NewMetrics()
		m := md.ResourceMetrics().AppendEmpty().ScopeMetrics().AppendEmpty().Metrics().AppendEmpty()
		m.SetName("m")
		var ex func(i int) pmetric.Exemplar
		switch g.Family {
		case "points_each_with_exemplar":
			dps := m.SetEmptyGauge().DataPoints()
			dps.EnsureCapacity(n)
			ex = func(i int) pmetric.Exemplar {
				dp := dps.AppendEmpty()
				dp.SetIntValue(int64(i % 5))
				return dp.Exemplars().AppendEmpty()
			}
		case "hpoints_each_with_exemplar":
			dps := m.SetEmptyHistogram().DataPoints()
			dps.EnsureCapacity(n)
			ex = func(i int) pmetric.Exemplar {
				dp := dps.AppendEmpty()
				dp.SetCount(uint64(i % 5))
				return dp.Exemplars().AppendEmpty()
			}
		default:
			dps := m.SetEmptyExponentialHistogram().DataPoints()
			dps.EnsureCapacity(n)
			ex = func(i int) pmetric.Exemplar {
				dp := dps.AppendEmpty()
				dp.SetCount(uint64(i % 5))
				return dp.Exemplars().AppendEmpty()
			}
		}
		for i := 0; i < n; i++ {
			ex(i).SetIntValue(int64(i % 3))
		}
		return Input{Signal: Metrics, Metrics: md}
	case "points_with_attrs", "exemplars_with_attrs":
		md := pmetric.NewMetrics()
		m := md.ResourceMetrics().AppendEmpty().ScopeMetrics().AppendEmpty().Metrics().AppendEmpty()
		m.SetName("m")
		g0 := m.SetEmptyGauge()
		if g.Family == "points_with_attrs" {
			for i := 0; i < n; i++ {
				dp := g0.DataPoints().AppendEmpty()
				dp.SetIntValue(int64(i % 5))
				dp.Attributes().PutInt("i", int64(i%7))
			}
		} else {
			dp := g0.DataPoints().AppendEmpty()
			dp.SetIntValue(1)
			for i := 0; i < n; i++ {
				ex := dp.Exemplars().AppendEmpty()
				ex.SetIntValue(int64(i % 5))
				ex.FilteredAttributes().PutInt("i", int64(i%7))
			}
		}
		return Input{Signal: Metrics, Metrics: md}
	case "spans_with_attrs", "spans_with_events", "spans_with_links", "spans_attrs_or_events", "spans_plain":
		td := ptrace.NewTraces()
		ss := td.ResourceSpans().AppendEmpty().ScopeSpans().AppendEmpty()
		ss.Spans().EnsureCapacity(n)
		for i := 0; i < n; i++ {
			sp := ss.Spans().AppendEmpty()
			sp.SetName("s")
			switch g.Family {
			case "spans_with_attrs":
				sp.Attributes().PutInt("i", int64(i%7))
			case "spans_with_events":
				sp.Events().AppendEmpty().SetName("e")
			case "spans_with_links":
				sp.Links().AppendEmpty().TraceState().FromRaw("l")
			case "spans_attrs_or_events":
				if i%2 == 0 {
					sp.Attributes().PutInt("i", int64(i%7))
				} else {
					sp.Events().AppendEmpty().SetName("e")
				}
			}
		}
		return Input{Signal: Traces, Traces: td}
	case "logs_with_attrs", "logs_plain":
		ld := plog.NewLogs()
		sl := ld.ResourceLogs().AppendEmpty().ScopeLogs().AppendEmpty()
		sl.LogRecords().EnsureCapacity(n)
		for i := 0; i < n; i++ {
			l := sl.LogRecords().AppendEmpty()
			l.Body().SetStr("b")
			if g.Family == "logs_with_attrs" {
				l.Attributes().PutInt("i", int64(i%7))
			}
		}
		return Input{Signal: Logs, Logs: ld}
	case "metrics_plain", "metrics_with_points":
		md := pmetric.NewMetrics()
		sm := md.ResourceMetrics().AppendEmpty().ScopeMetrics().AppendEmpty()
		sm.Metrics().EnsureCapacity(n)
		for i := 0; i < n; i++ {
			m := sm.Metrics().AppendEmpty()
			m.SetName("m")
			if g.Family == "metrics_with_points" {
				dp := m.SetEmptyGauge().DataPoints().AppendEmpty()
				dp.SetIntValue(int64(i % 5))
				dp.Attributes().PutInt("i", int64(i%7))
			}
		}
		return Input{Signal: Metrics, Metrics: md}
	case "sharedscopes_traces":
		td := ptrace.NewTraces()
		for i := 0; i < n; i += 256 {
			rs := td.ResourceSpans().AppendEmpty()
			rs.Resource().Attributes().PutInt("r", int64(i))
			for j := 0; j < 256 && i+j < n; j++ {
				ss := rs.ScopeSpans().AppendEmpty()
				ss.Scope().SetName("sc" + strconv.Itoa(j))
				ss.Spans().AppendEmpty().SetName("s")
			}
		}
		return Input{Signal: Traces, Traces: td}
	case "sharedscopes_logs":
		ld := plog.NewLogs()
		for i := 0; i < n; i += 256 {
			rl := ld.ResourceLogs().AppendEmpty()
			rl.Resource().Attributes().PutInt("r", int64(i))
			for j := 0; j < 256 && i+j < n; j++ {
				sl := rl.ScopeLogs().AppendEmpty()
				sl.Scope().SetName("sc" + strconv.Itoa(j))
				sl.LogRecords().AppendEmpty().Body().SetStr("b")
			}
		}
		return Input{Signal: Logs, Logs: ld}
	case "sharedscopes_metrics":
		md := pmetric.NewMetrics()
		for i := 0; i < n; i += 256 {
			rm := md.ResourceMetrics().AppendEmpty()
			rm.Resource().Attributes().PutInt("r", int64(i))
			for j := 0; j < 256 && i+j < n; j++ {
				sm := rm.ScopeMetrics().AppendEmpty()
				sm.Scope().SetName("sc" + strconv.Itoa(j))
				sm.Metrics().AppendEmpty().SetName("m")
			}
		}
		return Input{Signal: Metrics, Metrics: md}
	case "resources_traces", "scopes_traces":
		td := ptrace.NewTraces()
		if g.Family == "resources_traces" {
			for i := 0; i < n; i++ {
				rs := td.ResourceSpans().AppendEmpty()
				rs.Resource().Attributes().PutInt("r", int64(i))
				rs.ScopeSpans().AppendEmpty().Spans().AppendEmpty().SetName("s")
			}
		} else {
			rs := td.ResourceSpans().AppendEmpty()
			for i := 0; i < n; i++ {
				ss := rs.ScopeSpans().AppendEmpty()
				ss.Scope().SetName(strconv.Itoa(i))
				ss.Spans().AppendEmpty().SetName("s")
			}
		}
		return Input{Signal: Traces, Traces: td}
	case "resources_logs", "scopes_logs":
		ld := plog.NewLogs()
		if g.Family == "resources_logs" {
			for i := 0; i < n; i++ {
				rl := ld.ResourceLogs().AppendEmpty()
				rl.Resource().Attributes().PutInt("r", int64(i))
				rl.ScopeLogs().AppendEmpty().LogRecords().AppendEmpty().Body().SetStr("b")
			}
		} else {
			rl := ld.ResourceLogs().AppendEmpty()
			for i := 0; i < n; i++ {
				sl := rl.ScopeLogs().AppendEmpty()
				sl.Scope().SetName(strconv.Itoa(i))
				sl.LogRecords().AppendEmpty().Body().SetStr("b")
			}
		}
		return Input{Signal: Logs, Logs: ld}
	default: // resources_metrics, scopes_metrics
		md := pmetric.NewMetrics()
		if g.Family == "resources_metrics" {
			for i := 0; i < n; i++ {
				rm := md.ResourceMetrics().AppendEmpty()
				rm.Resource().Attributes().PutInt("r", int64(i))
				rm.ScopeMetrics().AppendEmpty().Metrics().AppendEmpty().SetName("m")
			}
		} else {
			rm := md.ResourceMetrics().AppendEmpty()
			for i := 0; i < n; i++ {
				sm := rm.ScopeMetrics().AppendEmpty()
				sm.Scope().SetName(strconv.Itoa(i))
				sm.Metrics().AppendEmpty().SetName("m")
			}
		}
		return Input{Signal: Metrics, Metrics: md}
	}
}

// smallValid is a small, ordinary batch with attributes, events and points.
func smallValid(signal string, salt int) Input {
	switch signal {
	case Traces:
		td := ptrace.NewTraces()
		rs := td.ResourceSpans().AppendEmpty()
		rs.Resource().Attributes().PutStr("host", "h")
		ss := rs.ScopeSpans().AppendEmpty()
		for i := 0; i < 3; i++ {
			sp := ss.Spans().AppendEmpty()
			sp.SetName(fmt.Sprint("small", salt, i))
			sp.Attributes().PutInt("i", int64(i))
			sp.Events().AppendEmpty().SetName("e")
			sp.Links().AppendEmpty().TraceState().FromRaw("l")
		}
		return Input{Signal: Traces, Traces: td}
	case Logs:
		ld := plog.NewLogs()
		rl := ld.ResourceLogs().AppendEmpty()
		rl.Resource().Attributes().PutStr("host", "h")
		sl := rl.ScopeLogs().AppendEmpty()
		for i := 0; i < 3; i++ {
			l := sl.LogRecords().AppendEmpty()
			l.Body().SetStr(fmt.Sprint("small", salt, i))
			l.Attributes().PutInt("i", int64(i))
		}
		return Input{Signal: Logs, Logs: ld}
	default:
		md := pmetric.NewMetrics()
		rm := md.ResourceMetrics().AppendEmpty()
		rm.Resource().Attributes().PutStr("host", "h")
		sm := rm.ScopeMetrics().AppendEmpty()
		for i := 0; i < 3; i++ {
			m := sm.Metrics().AppendEmpty()
			m.SetName(fmt.Sprint("small", salt, i))
			dp := m.SetEmptyGauge().DataPoints().AppendEmpty()
			dp.SetIntValue(int64(i))
			dp.Attributes().PutInt("i", int64(i))
			dp.Exemplars().AppendEmpty().SetIntValue(int64(i))
		}
		// (every data point table is used again after a giant)
		h := sm.Metrics().AppendEmpty()
		h.SetName(fmt.Sprint("smallh", salt))
		hp := h.SetEmptyHistogram().DataPoints().AppendEmpty()
		hp.SetCount(uint64(salt))
		hp.Exemplars().AppendEmpty().SetIntValue(1)
		e := sm.Metrics().AppendEmpty()
		e.SetName(fmt.Sprint("smalle", salt))
		ep := e.SetEmptyExponentialHistogram().DataPoints().AppendEmpty()
		ep.SetCount(uint64(salt))
		ep.Exemplars().AppendEmpty().SetIntValue(1)
		return Input{Signal: Metrics, Metrics: md}
	}
}

// giantVerdict runs small batches, the giant, small batches on one
// producer/consumer pair. Oracle: no producer panic anywhere; a giant beyond
// the id width is refused with an error; a giant within it is accepted; every
// small valid batch - also the ones after a refused giant - is accepted and
// (since it is a well-formed batch on a stream whose earlier batches were all
// delivered or refused as a whole) decodes to what was encoded.
func giantVerdict(g Giant) string { return runGiant(g) }

func runGiant(g Giant) string {
	sig := giantSignal(g.Family)
	small := g.SmallSig
	if small == "" {
		small = sig
	}
	var inputs []Input
	for i := 0; i < g.Before; i++ {
		inputs = append(inputs, smallValid(small, i))
	}
	giantIdx := len(inputs)
	inputs = append(inputs, buildGiant(g))
	for i := 0; i < g.After; i++ {
		inputs = append(inputs, smallValid(small, 100+i))
	}
	p, cons, closeAll := newPair(Options{})
	defer closeAll()
	for i, in := range inputs {
		want := []string(nil)
		if i != giantIdx {
			want = in.Canon()
		}
		bar, err, pn := Encode(p, in)
		if pn != nil {
			return fmt.Sprintf("batch %d (%s, %d items, giant=%v): producer panicked: %s", i, in.Signal, in.Items(), i == giantIdx, pn)
		}
		if i == giantIdx {
			if err == nil && g.mustRefuse() {
				return fmt.Sprintf("giant %s with %d parents exceeds the 16-bit id width but was encoded without error", g.Family, g.N)
			}
			if err != nil && g.mustAccept() {
				return fmt.Sprintf("giant %s with %d parents is within the id width but was refused: %v", g.Family, g.N, err)
			}
			if err == nil {
				d := Decode(cons, in.Signal, bar)
				if d.Panic != nil {
					return fmt.Sprintf("consumer panicked on the giant batch: %s", d.Panic)
				}
				if d.Err == nil && g.mustAccept() && d.Items != in.Items() {
					return fmt.Sprintf("giant %s/%d decoded to %d items", g.Family, g.N, d.Items)
				}
			}
			continue
		}
		if err != nil {
			return fmt.Sprintf("small valid batch %d (%s) was refused (giant at %d): %v", i, in.Signal, giantIdx, err)
		}
		d := Decode(cons, in.Signal, bar)
		if d.Panic != nil {
			return fmt.Sprintf("consumer panicked on small batch %d: %s", i, d.Panic)
		}
		if d.Err != nil {
			return fmt.Sprintf("small valid batch %d (%s) did not decode (giant at %d): %v", i, in.Signal, giantIdx, d.Err)
		}
		if diff := canon.Diff(want, d.Canon); diff != "" {
			return fmt.Sprintf("small batch %d (%s) decoded wrongly (giant at %d): %s", i, in.Signal, giantIdx, diff)
		}
	}
	return ""
}

// TestC08Giants draws giant batches around the id width.
func TestC08Giants(t *testing.T) {
	rec := kit.Get("C08")
	rapid.Check(t, func(t *rapid.T) {
		// one giant of EVERY family per case (the size and the surrounding
		// small batches are drawn): with a random family a given (family, size
		// class) cell was missed by a third of the quick runs
		for _, fam := range giantFamilies {
			g := Giant{
				Family: fam,
				N:      rapid.SampledFrom([]int{65537, 65536, 65535, 70000, 131073, 65537}).Draw(t, "n"),
				Before: rapid.IntRange(0, 2).Draw(t, "before"),
				After:  rapid.IntRange(0, 2).Draw(t, "after"),
			}
			if rapid.IntRange(0, 3).Draw(t, "othersmall") == 0 {
				g.SmallSig = rapid.SampledFrom([]string{Traces, Logs, Metrics}).Draw(t, "smallsig")
			}
			msg := runGiant(g)
			labels := []string{"giant:" + g.Family, fmt.Sprintf("giant_n=%d", g.N)}
			if g.mustRefuse() {
				labels = append(labels, "giant_must_be_refused")
			}
			if g.After > 0 && g.mustRefuse() {
				labels = append(labels, "small_batch_after_refused_giant")
			}
			rec.Case(true, "giant:"+g.String(), labels, func() any { return map[string]any{"giant": g} })
			if msg != "" {
				rec.Fail(t, g.toCase(), "%s", msg)
			}
		}
	})
}
