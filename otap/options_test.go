package otap

import (
	"fmt"
	"sort"
	"strings"
	"testing"

	"pgregory.net/rapid"

	colarspb "github.com/open-telemetry/otel-arrow/api/experimental/arrow/v1"

	"verif/kit"
	"verif/otap/gen"
)

// Option values listed in known_findings.txt (D6): attribute orderings whose
// parent-id encoding the decoder does not assume. The main generators exclude
// them by construction (counted in the evidence as excluded_known) and
// TestKnownC04 probes each one with a specific failing input.
var knownBadAttrs16 = map[int]string{}
var knownBadAttrs32 = map[int]string{}

// pct is an unbiased percentage draw (rapid's integer generators favour small
// values, so IntRange(0,99) < p is not a p% event).
func pct(t *rapid.T, label string, p int) bool {
	if fuzzNoExpensive && expensivePlans[label] {
		p = 0
	}
	v := 0
	for i := 0; i < 7; i++ {
		v <<= 1
		if rapid.Bool().Draw(t, label) {
			v |= 1
		}
	}
	return v*100/128 < p
}

// Under Go's native fuzzer one execution may take at most 10 s (the engine
// kills the worker otherwise), so the plans that build 65,000-item batches or
// very long histories are left to the rapid jobs.
var fuzzNoExpensive bool
var expensivePlans = map[string]bool{"big": true, "long": true, "fancross": true, "bigvalue": true}

var thresholds = []float64{0, 0.1, 0.3, 0.9, 1, 5}

// genOptions draws producer options over the domain of C04: every dictionary
// limit, reset thresholds over [0,inf), compression on/off, every ordering.
func genOptions(t *rapid.T, rec *kit.Recorder) Options {
	var o Options
	o.Dict = rapid.SampledFrom([]string{"", "none", "u8", "u8", "u8", "u16", "u32", "u64"}).Draw(t, "dict")
	if rapid.IntRange(0, 5).Draw(t, "thrk") > 0 {
		v := rapid.SampledFrom(thresholds).Draw(t, "thr")
		if rapid.IntRange(0, 7).Draw(t, "thrr") == 0 {
			v = rapid.Float64Range(0, 3).Draw(t, "thrv")
		}
		o.ResetThreshold = &v
	}
	switch rapid.IntRange(0, 2).Draw(t, "zstd") {
	case 1:
		b := true
		o.Zstd = &b
	case 2:
		b := false
		o.Zstd = &b
	}
	if rapid.Bool().Draw(t, "hasspanorder") {
		v := rapid.IntRange(0, 6).Draw(t, "spanorder")
		o.OrderSpanBy = &v
	}
	if rapid.Bool().Draw(t, "has16") {
		v := rapid.IntRange(0, 3).Draw(t, "attrs16")
		if key, bad := knownBadAttrs16[v]; bad {
			rec.Excluded(key)
		} else {
			o.OrderAttrs16By = &v
		}
	}
	if rapid.Bool().Draw(t, "has32") {
		v := rapid.IntRange(0, 4).Draw(t, "attrs32")
		if key, bad := knownBadAttrs32[v]; bad {
			rec.Excluded(key)
		} else {
			o.OrderAttrs32By = &v
		}
	}
	return o
}

var dumpTypes = []string{"HISTOGRAM_DATA_POINTS", "SPANS", "LOGS", "UNIVARIATE_METRICS", "EXP_HISTOGRAM_DATA_POINTS", "SUMMARY_DATA_POINTS", "SPAN_ATTRS", "NUMBER_DP_EXEMPLARS", "RESOURCE_ATTRS", "SPAN_EVENTS", "NO_SUCH_TYPE"}

// genExtraOptions adds the remaining public options of pkg/config - the
// initial dictionary index width and, when stats is set, the statistics /
// dump options - for the properties that quantify over ALL producer options.
func genExtraOptions(t *rapid.T, o *Options, stats bool) {
	if pct(t, "initdict", 12) {
		o.InitDict = rapid.SampledFrom([]string{"u16", "u8", "u32", "u64"}).Draw(t, "initdictv")
	}
	if stats && pct(t, "stats", 4) {
		all := []string{"record", "schema", "updates", "producer", "compression"}
		for _, st := range all {
			if rapid.Bool().Draw(t, "stat") {
				o.Stats = append(o.Stats, st)
			}
		}
		if rapid.Bool().Draw(t, "dump") {
			// (dumps need the record statistics to be on)
			if len(o.Stats) == 0 || o.Stats[0] != "record" {
				o.Stats = append([]string{"record"}, o.Stats...)
			}
			if rapid.Bool().Draw(t, "dumpall") {
				// "dump everything": every payload type, 50 rows
				var names []string
				for _, name := range colarspb.ArrowPayloadType_name {
					names = append(names, name)
				}
				sort.Strings(names)
				for _, name := range names {
					o.Stats = append(o.Stats, "dump:"+name+":50")
				}
			} else {
				n := rapid.IntRange(1, 3).Draw(t, "ndump")
				for i := 0; i < n; i++ {
					o.Stats = append(o.Stats, fmt.Sprintf("dump:%s:%d", rapid.SampledFrom(dumpTypes).Draw(t, "dumptype"), rapid.SampledFrom([]int{1, 3, 50, 0}).Draw(t, "dumprows")))
				}
			}
		}
	}
}

// historyPlan selects what genOptionHistory builds.
type historyPlan struct {
	MinBatches, MaxBatches int
	Interleave             bool   // batches of several signals on one producer
	Big                    bool   // sizes crossing 65,535
	FanCross               bool   // related records crossing 65,535 while the main record does not (gen.NewFanRamp)
	Signal                 string // "" = drawn
	Knobs                  gen.Knobs
}

// genOptionHistory draws a history in which each batch is either a cardinality
// ramp batch (steering dictionaries through upgrade/overflow/reset) or a rich
// batch from the general generator (steering optional columns), all sharing
// one producer.
func genOptionHistory(t *rapid.T, plan historyPlan) (*StreamCase, *gen.Stream) {
	signal := plan.Signal
	if signal == "" {
		signal = rapid.SampledFrom([]string{Traces, Logs, Metrics}).Draw(t, "signal")
	}
	nb := rapid.IntRange(plan.MinBatches, plan.MaxBatches).Draw(t, "nb")
	s := gen.NewStream(t, plan.Knobs, nb)
	r := gen.NewRamp(t, plan.Big)
	richPct := rapid.SampledFrom([]int{0, 20, 50}).Draw(t, "richpct")
	if plan.FanCross {
		r = gen.NewFanRamp(t)
		richPct = rapid.SampledFrom([]int{0, 0, 20}).Draw(t, "fanrichpct")
	}
	c := &StreamCase{}
	for b := 0; b < nb; b++ {
		s.B = b
		sig := signal
		if plan.Interleave && rapid.IntRange(0, 3).Draw(t, "interleave") == 0 {
			sig = rapid.SampledFrom([]string{Traces, Logs, Metrics}).Draw(t, "sig")
		}
		if rapid.IntRange(0, 99).Draw(t, "rich") < richPct {
			c.Batches = append(c.Batches, genBatch(s, sig))
			continue
		}
		switch sig {
		case Traces:
			c.Batches = append(c.Batches, TracesBatch(r.Traces()))
		case Logs:
			c.Batches = append(c.Batches, LogsBatch(r.Logs()))
		default:
			c.Batches = append(c.Batches, MetricsBatch(r.Metrics()))
		}
	}
	insertBigPayload(t, c, s, signal, plan.Big || plan.FanCross)
	return c, s
}

// insertBigPayload puts, into 2 % of the histories, a batch whose payloads
// are larger than 1 MiB on the wire (one incompressible string value of
// 1 - 3 MiB) between two small batches of exactly the same shape, so that the
// sub-streams that carried the large payload are continued under an unchanged
// schema ("all stream histories": payload size is a dimension of its own -
// seeded change C12f keeps no writer behind a buffer of more than 1 MiB).
func insertBigPayload(t *rapid.T, c *StreamCase, s *gen.Stream, signal string, skip bool) {
	if skip || !pct(t, "bigpayload", 2) {
		return
	}
	n := rapid.SampledFrom([]int{3 << 20, 1<<20 + 4096, 3 << 19, 2 << 20}).Draw(t, "bigpayloadn")
	at := rapid.IntRange(0, len(c.Batches)).Draw(t, "bigpayloadat")
	small := Batch{Signal: signal, Synth: "bigrandom/24"}
	big := Batch{Signal: signal, Synth: fmt.Sprintf("bigrandom/%d", n)}
	ins := []Batch{big, small}
	if rapid.Bool().Draw(t, "bigpayloadlead") {
		ins = []Batch{small, big, small}
	}
	if rapid.Bool().Draw(t, "bigpayloadtwice") {
		ins = append(ins, big, small)
	}
	c.Batches = append(c.Batches[:at:at], append(ins, c.Batches[at:]...)...)
	s.Stats["payload_over_1MiB"]++
}

// transitionLabels turns observer events into evidence labels.
func transitionLabels(res *StreamResult) []string {
	var ls []string
	for _, k := range res.Events.Kinds() {
		ls = append(ls, "transition:"+k)
	}
	return ls
}

func optionLabels(o Options) []string {
	ls := []string{"dict=" + map[bool]string{true: "default", false: o.Dict}[o.Dict == ""]}
	if o.ResetThreshold != nil {
		ls = append(ls, fmt.Sprintf("reset_threshold=%s", thresholdClass(*o.ResetThreshold)))
	}
	if o.Zstd != nil {
		ls = append(ls, fmt.Sprintf("zstd=%v", *o.Zstd))
	}
	if o.InitDict != "" {
		ls = append(ls, "init_dict="+o.InitDict)
	}
	for _, st := range o.Stats {
		if strings.HasPrefix(st, "dump:") {
			st = "dump"
		}
		ls = append(ls, "stats:"+st)
	}
	if o.OrderSpanBy != nil {
		ls = append(ls, fmt.Sprintf("span_order=%d", *o.OrderSpanBy))
	}
	if o.OrderAttrs16By != nil {
		ls = append(ls, fmt.Sprintf("attrs16_order=%d", *o.OrderAttrs16By))
	}
	if o.OrderAttrs32By != nil {
		ls = append(ls, fmt.Sprintf("attrs32_order=%d", *o.OrderAttrs32By))
	}
	return ls
}

func thresholdClass(v float64) string {
	switch {
	case v == 0:
		return "0"
	case v < 0.3:
		return "(0,0.3)"
	case v < 1:
		return "[0.3,1)"
	case v == 1:
		return "1"
	default:
		return ">1"
	}
}

func c04Verdict(c *StreamCase) string {
	res, err := RunStream(c, RunConfig{Decode: true, StopAtDecodeFail: true})
	if err != nil {
		return "harness: " + err.Error()
	}
	return roundTripVerdict(res, "")
}

func init() { streamVerdicts["C04"] = c04Verdict }

// TestC04: decoded telemetry is independent of producer options and of the
// schema evolution the history causes.
func TestC04(t *testing.T) {
	rec := kit.Get("C04")
	rapid.Check(t, func(t *rapid.T) {
		o := genOptions(t, rec)
		big := pct(t, "big", map[bool]int{true: 4, false: 1}[thorough()])
		minb, maxb := 1, 8
		if big {
			// crossing 65,535 needs the default / 16-bit limit or wider, and at
			// least two large batches
			o.Dict = rapid.SampledFrom([]string{"u32", "", "u16", "u64"}).Draw(t, "bigdict")
			minb, maxb = 3, 4
			if pct(t, "bigreset", 50) {
				// the reset regime at the 16-bit limit: a threshold above 1
				// resets at every crossing whatever the reuse ratio is
				v := rapid.SampledFrom([]float64{5, 1.5}).Draw(t, "bigthr")
				o.ResetThreshold = &v
			}
		}
		// "for all three signals" on one producer: a quarter of the histories
		// interleave the signals (the sub-streams of the resource and scope
		// attributes are then shared between the signals). The precondition of
		// the known finding shared-writer-trailing-nul is excluded by
		// construction there.
		knobs := gen.InDomain()
		interleave := !big && pct(t, "interleave", 25)
		if interleave {
			knobs.NoTrailingNUL = true
		}
		c, gs := genOptionHistory(t, historyPlan{MinBatches: minb, MaxBatches: maxb, Big: big, Interleave: interleave, Knobs: knobs})
		if n := gs.Stats["excluded_trailing_nul"]; n > 0 {
			for i := 0; i < n; i++ {
				rec.Excluded("shared-writer-trailing-nul")
			}
		}
		c.Options = o
		res, err := RunStream(c, RunConfig{Decode: true, StopAtDecodeFail: true})
		if err != nil {
			t.Fatalf("harness: %v", err)
		}
		labels := append(optionLabels(o), transitionLabels(res)...)
		labels = append(labels, "signal="+c.Batches[0].Signal)
		if interleave {
			labels = append(labels, "interleaved_signals")
		}
		if gs.Stats["payload_over_1MiB"] > 0 {
			labels = append(labels, "payload_over_1MiB_then_same_schema")
		}
		late := false
		for i, b := range res.Batches {
			if i > 0 && b.SchemaUpdates > 0 {
				late = true
			}
		}
		if late {
			labels = append(labels, "schema_update_after_first_batch")
		}
		trans := res.Events.Total("upgrade") + res.Events.Total("overflow") + res.Events.Total("reset")
		nontrivial := trans > 0 || late
		var shapes []string
		for _, b := range res.Batches {
			shapes = append(shapes, b.Signal[:1]+bucket(b.Items)+strings.Join(b.NewEvents, "+"))
		}
		shape := o.String() + "#" + strings.Join(shapes, "|")
		rec.Case(nontrivial, shape, labels, sampleOf(c, res))
		if msg := roundTripVerdict(res, ""); msg != "" {
			rec.Fail(t, c, "options %s: %s", o, msg)
		}
	})
}
