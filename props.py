"""Per-property configuration of the driver (./check) and source of MANIFEST.json
(./mkmanifest regenerates the manifest from this table)."""

MODULES = {
    # harness module -> how it is built. Every module has a go.mod `replace`
    # pointing into /repo, so `go test -c` compiles /repo's working tree.
    "otap": {"go": "go", "minimize": True, "race": True},
    "batchproc": {"go": "go1.26.8", "minimize": False, "race": True},
    "obfus": {"go": "go", "minimize": False, "race": False},
}

ROUNDTRIP_ASSUME = [
    "oracle = canonical multiset (otap/canon) written against pdata only; it applies exactly the documented normalisations",
    "domain: valid UTF-8 strings, timestamps <= 2^63-1, list/map nesting <= 16, unique attribute keys per map (pdata Put* upserts), batches far below the 65,535 id width, single-signal histories on a default producer and a default consumer",
    "generated search, not a proof: held on the cases counted in coverage",
]


def rt_rule(item):
    return ("rapid-generated stream histories of 1-8 %s batches on one producer/consumer pair (hostile string pool, boundary numbers, zero/absence grid, "
            "activation schedule for optional columns, resource/scope pools with exact copies and confusion-mutated siblings); a case is NON-TRIVIAL when "
            "(>=2 non-empty batches and a schema update happened after the first non-empty batch) or (a copied/sibling resource or scope was constructed in a non-empty stream); "
            "DISTINCT = FNV-64 hash of the per-batch shape vectors (bucketed container/item/child counts, value kinds) plus the set of producer-observer event kinds" % item)


PROPS = {
    "C01": {
        "module": "otap", "level": "exploration",
        "technique": "property-based round trip (rapid) against a canonical-multiset oracle over generated stream histories",
        "level_text": "Generated-input search: every trace batch of every generated stream history is encoded by the real producer and decoded by the real consumer, and the canonical multiset of spans (with owning resource/scope, attributes, events, links) must be equal. Exploration is the honest level: the input space is unbounded; the generator is aimed at the shapes the property names and the evidence reports the class histogram.",
        "design_ref": "DESIGN.md §7 C01, §4, §5",
        "rule": rt_rule("trace"),
        "assumptions": ROUNDTRIP_ASSUME,
        "jobs": {
            "quick": [{"test": "TestC01", "shards": 6, "checks": 4200, "timeout": 600}],
            "thorough": [{"test": "TestC01", "shards": 16, "checks": 160000, "timeout": 3000}],
        },
    },
    "C02": {
        "module": "otap", "level": "exploration",
        "technique": "property-based round trip (rapid) against a canonical-multiset oracle over generated stream histories",
        "level_text": "Generated-input search: every log batch of every generated stream history must decode to the canonical multiset of log records that was encoded (bodies of every AnyValue type, same scope under several resources, sibling containers).",
        "design_ref": "DESIGN.md §7 C02, §4, §5",
        "rule": rt_rule("log"),
        "assumptions": ROUNDTRIP_ASSUME,
        "jobs": {
            "quick": [{"test": "TestC02", "shards": 6, "checks": 4200, "timeout": 600}],
            "thorough": [{"test": "TestC02", "shards": 16, "checks": 160000, "timeout": 3000}],
        },
    },
    "C03": {
        "module": "otap", "level": "exploration",
        "technique": "property-based round trip (rapid) against a canonical-multiset oracle over generated stream histories",
        "level_text": "Generated-input search: every metric batch (all six metric shapes, data points on the zero/absence grid, exemplars, quantiles) of every generated stream history must decode to the canonical multiset of metrics that was encoded.",
        "design_ref": "DESIGN.md §7 C03, §4, §5",
        "rule": rt_rule("metric"),
        "assumptions": ROUNDTRIP_ASSUME,
        "jobs": {
            "quick": [{"test": "TestC03", "shards": 6, "checks": 4200, "timeout": 600}],
            "thorough": [{"test": "TestC03", "shards": 16, "checks": 160000, "timeout": 3000}],
        },
    },
}

# Properties not claimed (yet), with the reason recorded in MANIFEST.not_applicable.
NOT_CLAIMED = {}
