"""Per-property configuration of the driver (./check) and source of MANIFEST.json
(./mkmanifest regenerates the manifest from this table)."""

MODULES = {
    # harness module -> how it is built. Every module has a go.mod `replace`
    # pointing into /repo, so `go test -c` compiles /repo's working tree.
    "otap": {"go": "go", "minimize": True, "race": True},
    "batchproc": {"go": "go1.26.8", "minimize": True, "race": True},
    "obfus": {"go": "go", "minimize": False, "race": False},
}

ROUNDTRIP_ASSUME = [
    "oracle = canonical multiset (otap/canon) written against pdata only; it applies exactly the documented normalisations",
    "domain: valid UTF-8 strings, timestamps <= 2^63-1, list/map nesting <= 16, unique attribute keys per map (pdata Put* upserts), batches far below the 65,535 id width, single-signal histories on a default producer and a default consumer",
    "generated search, not a proof: held on the cases counted in coverage",
]


def rt_rule(item):
    return ("rapid-generated stream histories of 1-8 %s batches on one producer/consumer pair (hostile string pool, boundary numbers, zero/absence grid, "
            "activation schedule for optional columns, resource/scope pools with exact copies and confusion-mutated siblings); a case is NON-TRIVIAL when "
            "(>=2 non-empty batches and a schema update happened after the first non-empty batch) or (a copied/sibling resource or scope was constructed in a non-empty stream); "
            "DISTINCT = FNV-64 hash of the per-batch shape vectors (bucketed container/item/child counts, value kinds) plus the set of producer-observer event kinds. "
            "Rare plans inside the same generator: a batch with exactly 65,535 / 65,534 / 40,000 / 32,768 attribute-bearing parents, list values of 65,536-200,000 elements. "
            "Second job: long-haul streams (one 40,000-60,000 item batch repeated until the main record and every related record type of >= 1 MiB has carried > 75 MiB, "
            "i.e. more than the default consumer memory limit), always non-trivial" % item)


PROPS = {
    "C01": {
        "module": "otap", "level": "exploration",
        "technique": "property-based round trip (rapid) against a canonical-multiset oracle over generated stream histories; the thorough tier adds a coverage-guided native fuzz campaign over mutated OTLP protobuf bytes parsed by pdata, same oracle inside the target",
        "level_text": "Generated-input search: every trace batch of every generated stream history is encoded by the real producer and decoded by the real consumer, and the canonical multiset of spans (with owning resource/scope, attributes, events, links) must be equal. Exploration is the honest level: the input space is unbounded; the generator is aimed at the shapes the property names and the evidence reports the class histogram.",
        "design_ref": "DESIGN.md §7 C01, §4, §5",
        "rule": rt_rule("trace"),
        "assumptions": ROUNDTRIP_ASSUME,
        "jobs": {
            "quick": [{"test": "TestC01", "shards": 8, "checks": 12000, "timeout": 900}, {"test": "TestC01Haul", "shards": 1, "checks": 1, "timeout": 900, "shrinktime": "1s"}],
            "thorough": [{"test": "TestC01", "shards": 16, "checks": 160000, "timeout": 3000}, {"test": "TestC01Haul", "shards": 3, "checks": 3, "timeout": 3000, "shrinktime": "1s"}, {"test": "FuzzOTLP", "shards": 1, "checks": 0, "rapid": False, "fuzztime": "150s", "parallel": 6, "timeout": 1500}],
        },
    },
    "C02": {
        "module": "otap", "level": "exploration",
        "technique": "property-based round trip (rapid) against a canonical-multiset oracle over generated stream histories; the thorough tier adds a coverage-guided native fuzz campaign over mutated OTLP protobuf bytes parsed by pdata, same oracle inside the target",
        "level_text": "Generated-input search: every log batch of every generated stream history must decode to the canonical multiset of log records that was encoded (bodies of every AnyValue type, same scope under several resources, sibling containers).",
        "design_ref": "DESIGN.md §7 C02, §4, §5",
        "rule": rt_rule("log"),
        "assumptions": ROUNDTRIP_ASSUME,
        "jobs": {
            "quick": [{"test": "TestC02", "shards": 8, "checks": 12000, "timeout": 900}, {"test": "TestC02Haul", "shards": 1, "checks": 1, "timeout": 900, "shrinktime": "1s"}],
            "thorough": [{"test": "TestC02", "shards": 16, "checks": 160000, "timeout": 3000}, {"test": "TestC02Haul", "shards": 3, "checks": 3, "timeout": 3000, "shrinktime": "1s"}, {"test": "FuzzOTLP", "shards": 1, "checks": 0, "rapid": False, "fuzztime": "150s", "parallel": 6, "timeout": 1500}],
        },
    },
    "C03": {
        "module": "otap", "level": "exploration",
        "technique": "property-based round trip (rapid) against a canonical-multiset oracle over generated stream histories; the thorough tier adds a coverage-guided native fuzz campaign over mutated OTLP protobuf bytes parsed by pdata, same oracle inside the target",
        "level_text": "Generated-input search: every metric batch (all six metric shapes, data points on the zero/absence grid, exemplars, quantiles) of every generated stream history must decode to the canonical multiset of metrics that was encoded.",
        "design_ref": "DESIGN.md §7 C03, §4, §5",
        "rule": rt_rule("metric"),
        "assumptions": ROUNDTRIP_ASSUME,
        "jobs": {
            "quick": [{"test": "TestC03", "shards": 8, "checks": 12000, "timeout": 900}, {"test": "TestC03Haul", "shards": 1, "checks": 1, "timeout": 900, "shrinktime": "1s"}],
            "thorough": [{"test": "TestC03", "shards": 16, "checks": 160000, "timeout": 3000}, {"test": "TestC03Haul", "shards": 3, "checks": 3, "timeout": 3000, "shrinktime": "1s"}, {"test": "FuzzOTLP", "shards": 1, "checks": 0, "rapid": False, "fuzztime": "150s", "parallel": 6, "timeout": 1500}],
        },
    },
}

OPTION_ASSUME = [
    "options drawn over the product listed in C04's quantifier (dictionary limit none/u8/u16/u32/u64/default, reset threshold over [0,3], zstd on/off, every OrderSpanBy/OrderAttrs16By/OrderAttrs32By value); init-index options are outside the listed domain",
    "histories mix cardinality-ramp batches (ids from a growing universe, sizes straddling 255 and, in the big plan, 65,535; low- and high-reuse regimes) with rich batches from the general generator",
    "which transitions were taken is read from ProducerObserver callbacks for coverage labels only, never as an oracle",
    "generated search, not a proof",
]

PROPS.update({
    "C04": {
        "module": "otap", "level": "exploration",
        "technique": "property-based round trip (rapid) over producer-option x stream-history products, canonical-multiset oracle, default consumer; the thorough tier adds a coverage-guided native fuzz campaign over mutated OTLP protobuf bytes parsed by pdata, same oracle inside the target",
        "level_text": "Generated-input search over configurations x histories: every batch of every history, encoded under every drawn option set, must decode with a default consumer to the canonical multiset that was encoded. Because every option set is compared with the same option-independent canon(input), equality across option sets (the metamorphic reading) is implied. The evidence carries the histogram of index-width transitions (8>16, 16>32, overflow, reset) actually taken.",
        "design_ref": "DESIGN.md §7 C04",
        "rule": "rapid draws producer options and a 1-8 batch history (ramp and rich batches; a quarter of the histories interleave the three signals on the producer, with the precondition of known finding shared-writer-trailing-nul excluded by construction; a big plan crosses 65,535 by script, half of it in the reset regime); NON-TRIVIAL = the observer saw a dictionary upgrade, overflow or reset, or a schema update after the first batch; DISTINCT = FNV-64 of (option set, per-batch signal/size bucket/new observer event kinds)",
        "assumptions": OPTION_ASSUME + ["single-signal histories (interleaving is C12/C15's domain)", "strings are valid UTF-8, timestamps <= 2^63-1, nesting <= 16",
                                        "known finding dict-reset-trailing-nul (arrow-go ApproxEqual strips trailing NULs when the IPC writer compares dictionaries) is probed by TestKnownC04 with its specific history; the generators cannot produce its predicate (ramp strings never end in NUL; a reset needs >=128 matching entries)"],
        "jobs": {
            "quick": [{"test": "TestC04", "shards": 8, "checks": 3200, "timeout": 900}],
            "thorough": [{"test": "TestC04", "shards": 16, "checks": 48000, "timeout": 3000}, {"test": "FuzzOTLP", "shards": 1, "checks": 0, "rapid": False, "fuzztime": "150s", "parallel": 6, "timeout": 1500}],
        },
    },
    "C08": {
        "module": "otap", "level": "exploration",
        "technique": "property-based no-panic search (rapid) over hostile OTLP values x options x histories, plus generated giant batches around the 16-bit id width with an error-expected oracle; the thorough tier adds a coverage-guided native fuzz campaign over mutated OTLP protobuf bytes parsed by pdata, same oracle inside the target",
        "level_text": "Generated-input search with a recover wrapper around every producer call: a recovered panic is the failure. Inputs lift every domain restriction (invalid UTF-8, timestamps >= 2^63, nesting beyond 16, zero-first list/struct columns), interleave signals and options, and giants with 65,535..131,073 parents must be refused with an error (and accepted at <= 65,535) with later small batches unaffected.",
        "design_ref": "DESIGN.md §7 C08",
        "rule": "two generators: (a) option x history cases of 1-5 hostile batches, NON-TRIVIAL = a batch introduced a new column or follows a refused batch; (b) giants = one of EVERY family (26: parents, containers, shared scopes, children tables, parents of the 32-bit children tables) per case, n in {65535,65536,65537,70000,131073}, 0-2 small batches before/after, all non-trivial; DISTINCT = FNV-64 of the option/shape vector resp. the giant parameters",
        "assumptions": OPTION_ASSUME + ["a panic anywhere below Producer.BatchArrowRecordsFrom*/Close is caught by recover in the harness adapter", "for exactly 65,536 parents either outcome (batch or error) is accepted"],
        "jobs": {
            "quick": [{"test": "TestC08", "shards": 8, "checks": 6400, "timeout": 900}, {"test": "TestC08Giants", "shards": 6, "checks": 6, "timeout": 900}],
            "thorough": [{"test": "TestC08", "shards": 12, "checks": 60000, "timeout": 3000}, {"test": "TestC08Giants", "shards": 6, "checks": 48, "timeout": 3000}, {"test": "FuzzOTLP", "shards": 1, "checks": 0, "rapid": False, "fuzztime": "150s", "parallel": 6, "timeout": 1500}],
        },
    },
    "C12": {
        "module": "otap", "level": "exploration",
        "technique": "property-based validity predicate (rapid): an independent arrow-go IPC mirror reader judges the producer output alone over generated option x interleaved-signal histories; the thorough tier adds a coverage-guided native fuzz campaign that feeds the same generator and oracle from the fuzzer's bytes (rapid.MakeFuzz)",
        "level_text": "Generated-input search with a validity predicate on the emitted BatchArrowRecords only: batch ids 0,1,2..; payload[0] is the signal's main record; each payload type at most once; related payloads non-empty; schema id -> (payload type, Arrow schema) is a function and an id never returns after its payload type moved on; per schema id the payloads, incrementally and re-read from the concatenation, are one valid Arrow IPC stream for a reader that shares no code with pkg/otel.",
        "design_ref": "DESIGN.md §7 C12, §5 mirror reader",
        "rule": "rapid draws options and a 1-10 batch history with signals interleaved on one producer (12 % long histories of 12-30 batches, 2 % fan-cross histories in which a related record crosses 65,535 dictionary entries while the main record stays small); the mirror reader also checks every dictionary index against the dictionary transmitted so far; NON-TRIVIAL = a schema id was retired, a dictionary reset happened under an unchanged schema, or signals were interleaved; DISTINCT = FNV-64 of (options, per-batch signal/size/payload-count/new events)",
        "assumptions": OPTION_ASSUME + ["the independent reader is arrow-go's ipc.Reader (one per schema id) - the Arrow library itself is trusted", "batches the producer refuses emit nothing and consume no batch id"],
        "jobs": {
            "quick": [{"test": "TestC12", "shards": 8, "checks": 4800, "timeout": 900}],
            "thorough": [{"test": "TestC12", "shards": 16, "checks": 48000, "timeout": 3000}, {"test": "FuzzRapid", "shards": 1, "checks": 0, "rapid": False, "fuzztime": "150s", "parallel": 6, "timeout": 1500}],
        },
    },
    "C13": {
        "module": "otap", "level": "exploration",
        "technique": "property-based bound check (rapid): dictionary sizes measured by an independent IPC mirror reader over long generated histories for every limit option; the thorough tier adds a coverage-guided native fuzz campaign that feeds the same generator and oracle from the fuzzer's bytes (rapid.MakeFuzz)",
        "level_text": "Generated-input search with a resource-bound oracle measured on the wire: every dictionary array in every record decoded by the mirror reader must hold at most min(configured limit, capacity of its index type) entries, and no dictionary-typed column may exist with dictionaries disabled. Holds or fails independently of whether the round trip succeeds.",
        "design_ref": "DESIGN.md §7 C13",
        "rule": "rapid draws options and a 3-40 batch ramp/rich history (a 'big' plan with batches up to 66,000 ids crosses 65,535); NON-TRIVIAL = at least one dictionary overflow or reset was observed; DISTINCT = FNV-64 of (options, per-batch signal/size/new events)",
        "assumptions": OPTION_ASSUME + ["arbitrarily long streams are approximated by histories of up to 40 batches whose id universe keeps growing"],
        "jobs": {
            "quick": [{"test": "TestC13", "shards": 8, "checks": 640, "timeout": 900}],
            "thorough": [{"test": "TestC13", "shards": 16, "checks": 12000, "timeout": 3000}, {"test": "FuzzRapid", "shards": 1, "checks": 0, "rapid": False, "fuzztime": "150s", "parallel": 6, "timeout": 1500}],
        },
    },
    "C15": {
        "module": "otap", "level": "exploration",
        "technique": "property-based before/after byte equality of the OTLP input and allocator-balance check (arrow CheckedAllocator) over generated option x history cases incl. refused batches; the thorough tier adds a coverage-guided native fuzz campaign over mutated OTLP protobuf bytes parsed by pdata, same oracle inside the target",
        "level_text": "Generated-input search: the protobuf serialisation of every input must be byte-identical before and after encoding, and memory.CheckedAllocator.CurrentAlloc() must be 0 after Producer.Close for every history - mixed signals, schema updates, discard-and-rebuild on overflow/reset, encode errors (giants the producer refuses).",
        "design_ref": "DESIGN.md §7 C15",
        "rule": "rapid draws options and 1-8 batch interleaved-signal hostile histories, plus histories around a refused giant; NON-TRIVIAL = at least one schema update (record discarded and rebuilt) or a refused batch; DISTINCT = FNV-64 of (options, per-batch signal/size/new events) resp. giant parameters",
        "assumptions": OPTION_ASSUME + ["pdata's protobuf marshalling is order-preserving, so byte equality is the right comparison", "after a producer panic (C08's verdict) the allocator balance is not judged"],
        "jobs": {
            "quick": [{"test": "TestC15", "shards": 8, "checks": 4800, "timeout": 900}, {"test": "TestC15Refused", "shards": 2, "checks": 16, "timeout": 900}],
            "thorough": [{"test": "TestC15", "shards": 14, "checks": 56000, "timeout": 3000}, {"test": "TestC15Refused", "shards": 2, "checks": 200, "timeout": 3000}, {"test": "FuzzOTLP", "shards": 1, "checks": 0, "rapid": False, "fuzztime": "150s", "parallel": 6, "timeout": 1500}],
        },
    },
})

PROPS.update({
    "C07": {
        "module": "otap", "level": "fault_enumeration",
        "technique": "fault enumeration inside a rapid property: every single payload-level fault on every payload of the damaged batch of each generated session, plus generated fault combinations; validity-predicate oracle",
        "level_text": "For each generated session (valid prefix of 0-3 batches from producer P1 so the consumer holds reader/dictionary state, the damaged batch, 0-2 follow-up producers on fresh renamed sub-streams) EVERY single fault - relabel to each of the 32 enum/undefined payload types, drop, duplicate (appended and adjacent), empty, unknown schema id, stale (retired) schema id, swap with each other payload - is applied to every payload and run against a fresh real consumer; random pairs/triples follow, also on follow-up producers. Oracle: no panic (recover wrapper, Close included); success with an untouched main payload returns as many items as the main record has rows; unaltered batches on intact sub-streams decode to canon(input).",
        "design_ref": "DESIGN.md §7 C07",
        "rule": "sessions are rapid-generated (signal, depth, canned-or-generated batches, follow-up producers); within a session single faults are enumerated exhaustively (relabel and duplicate-and-relabel to every enum value, drop, duplicate, empty, unknown id, EVERY retired id, swaps) and 4-12 random combinations drawn (later faults may address appended copies); 15 % of the sessions have a 4-10 batch prefix, a quarter of the batches are bare (items only); evaluations = damaged-batch decodes; NON-TRIVIAL = every applied fault except a stale-id fault without any valid prefix; DISTINCT = FNV-64 of (signal, prefix depth, fault kind, payload type hit) resp. (signal, depth, sorted kinds of the combination)",
        "assumptions": [
            "faults that splice IPC bytes between sub-streams are outside the domain: after a drop/empty/duplicate/re-id the same producer sends nothing more; follow-ups come from fresh producers with renamed schema ids; re-id to another LIVE id is not generated",
            "weakest reading of 'a main record that was present': only when no fault touched the main payload is the item count demanded",
            "single faults are exhaustive per session; sessions and combinations are sampled",
        ],
        "jobs": {
            "quick": [{"test": "TestC07", "shards": 12, "checks": 96, "timeout": 900}],
            "thorough": [{"test": "TestC07", "shards": 16, "checks": 1600, "timeout": 3300}],
        },
    },
    "C14": {
        "module": "otap", "level": "fault_enumeration",
        "technique": "fault enumeration over a memory-limit grid inside a rapid property: differential against an unlimited consumer, errors.Is oracle, recording MeterProvider bound, monotonicity in the limit; the thorough tier adds a coverage-guided native fuzz campaign that feeds the same generator and oracle from the fuzzer's bytes (rapid.MakeFuzz)",
        "level_text": "The injected fault is the memory limit. For every generated stream a grid of limits (0 B .. 70 MiB geometric, values around the need measured per prefix, random extras) is enumerated, each with a fresh limited consumer and a recording MeterProvider: every batch either decodes to the canonical output of the unlimited reference or is refused with errors.Is(err, ErrConsumerMemoryLimit); no panic; the running sum of arrow_memory_inuse never exceeds the limit; the index of the first refused batch is non-decreasing in the limit.",
        "design_ref": "DESIGN.md §7 C14",
        "rule": "second job: ONE long haul - the same 8 MiB logs batch (no dictionaries, no compression) repeated until more than 4.6 GiB of payloads (past 2^32 bytes) went through one limited consumer, every batch must decode and the published in-use figure must stay within the limit. First job: rapid draws options and a 1-6 batch history; about 40 limits are enumerated per stream; evaluations counts streams, label stream_limit_pairs counts (stream, limit) runs; NON-TRIVIAL = the stream was fully decoded under some limits and refused under others; DISTINCT = FNV-64 of (options, batches, #limits refusing, #limits passing)",
        "assumptions": [
            "comparison stops at the first refusal of a consumer (known finding continue-after-refusal: the unchanged tree can panic when a consumer is used again after a refusal; the cut runs are counted as excluded_known and TestKnownC14 probes the specific history)",
            "the producer side runs without limit; batches the producer refuses end the stream",
            "in-use is what the consumer publishes on the supplied MeterProvider, observed at every Add",
        ],
        "jobs": {
            "quick": [{"test": "TestC14", "shards": 12, "checks": 720, "timeout": 900}, {"test": "TestC14Haul", "shards": 1, "checks": 1, "timeout": 900, "shrinktime": "1s"}],
            "thorough": [{"test": "TestC14", "shards": 16, "checks": 12000, "timeout": 3300}, {"test": "TestC14Haul", "shards": 3, "checks": 3, "timeout": 3300, "shrinktime": "1s"}, {"test": "FuzzRapid", "shards": 1, "checks": 0, "rapid": False, "fuzztime": "150s", "parallel": 6, "timeout": 1500}],
        },
    },
    "C16": {
        "module": "otap", "level": "exploration",
        "technique": "metamorphic property (rapid): sequential vs concurrent execution of generated groups of producer/consumer pairs, under the Go race detector",
        "level_text": "Generated groups of 2-8 (options, history) pairs are run alone to obtain reference per-batch outcomes and canonical outputs, then all at once from a barrier in a -race build: every stream must produce exactly what it produces alone and the race detector must stay silent (GORACE=halt_on_error: a report ends the process and the driver reports the case saved before execution). Real-scheduler interleavings are sampled, not enumerated.",
        "design_ref": "DESIGN.md §7 C16",
        "rule": "rapid draws 2-8 streams, each options x 1-5 batch interleaved-signal history (half of the groups share one option set; custom dictionary limits through a caller-written option); 15 % of the cases are a crowd: 1-4 long-lived streams and 100-600 short-lived neighbour streams that come and go between their first and second batch; all cases NON-TRIVIAL (>=2 concurrent streams); DISTINCT = FNV-64 of the sorted (options, batches) vector",
        "assumptions": ["interleavings are whatever the Go scheduler produces on 16 cores; the race detector sees only executed paths", "no absence proof"],
        "jobs": {
            "quick": [{"test": "TestC16", "shards": 10, "checks": 200, "timeout": 900, "race": True}],
            "thorough": [{"test": "TestC16", "shards": 16, "checks": 5600, "timeout": 3300, "race": True}],
        },
    },
})

BP_ASSUME = [
    "the processor is created through its factory and driven through Consume*/Shutdown only; the next consumer, the TracerProvider and all contexts are the harness's",
    "time is the component's own clock: every scenario runs in a testing/synctest bubble (Go 1.26.8), timers fire on virtual time, and after every scenario step the harness waits until all goroutines are durably blocked, so the interleaving is owned at action granularity; requests inside one consume step race for real",
    "interleavings below action granularity are sampled (stress variants, -race), not enumerated; liveness is checked only as 'nothing is still blocked after every export was released and Shutdown was called'",
    "a bubble in which something never returns is abandoned and reported as a hang; a panic on a processor goroutine kills the process and the driver reports the scenario saved before execution",
]

BP_RULE = ("rapid draws a scenario = (signal, config{send_batch_size 0-7, send_batch_max_size, timeout 0/200/1000/5000 ms, max_concurrency, early_return[, metadata keys+limit]}, "
           "1-8 requests with 1-3 resources x 0-3 scopes x 0-4 items (metrics: 0-3 metrics x 0-3 points of all five data types, empty containers included), context groups, "
           "up to 24 steps of consume(group of 1-3)/advance(virtual ms around the timeout)/complete|fail(export k)/cancel(ctx)/shutdown) with gated or auto-completing exports; %s; "
           "failing exports return an ordinary error, a downstream context error or a permanent error (C05, C06, C11); for C05, C06 and C11 a second job runs in processes "
           "pinned to 2 CPUs, where the shard's input channel (runtime.NumCPU() slots) holds 2 requests and 5-10 callers pile up behind a shard waiting for an export slot; "
           "DISTINCT = FNV-64 of (config, step-kind sequence, per-export (items, contributing requests, failed?))")

PROPS.update({
    "C05": {
        "module": "batchproc", "level": "exploration",
        "technique": "stateful property-based testing (rapid scenarios executed in a synctest bubble) with a history invariant: exactly-once multiset of item ids plus content and container-chain fingerprints; the thorough tier adds a coverage-guided native fuzz campaign that feeds the same scenario generator and oracle from the fuzzer's bytes (rapid.MakeFuzz)",
        "level_text": "Generated-schedule search with an invariant over the recorded history: the multiset of item ids seen by the next consumer equals that of the accepted requests (refused: none, context ended: at most once), each item's content fingerprint and the fingerprint of its container chain (resource attrs/dropped/schema URL, scope name/version/attrs/schema URL, metric descriptor) - taken before Consume - are unchanged, nothing unknown is exported; merges, splits inside scopes/metrics and Shutdown with buffered items are generated on purpose.",
        "design_ref": "DESIGN.md §6, §7 C05",
        "rule": BP_RULE % "NON-TRIVIAL = a request was split across >=2 exports or >=2 requests were merged into one export",
        "assumptions": BP_ASSUME + ["metric.Metadata() is not part of the identity C05 enumerates and is not compared"],
        "jobs": {
            "quick": [{"test": "TestC05", "shards": 10, "checks": 100000, "timeout": 600}, {"test": "TestC05", "shards": 3, "checks": 18000, "timeout": 600, "cpus": 2, "env": {"VERIF_FULL_CHANNEL": "1"}}],
            "thorough": [{"test": "TestC05", "shards": 16, "checks": 1600000, "timeout": 3000}, {"test": "FuzzScenario", "shards": 1, "checks": 0, "rapid": False, "fuzztime": "120s", "parallel": 6, "timeout": 1500}, {"test": "TestC05", "shards": 2, "checks": 60000, "timeout": 3000, "race": True}, {"test": "TestC05", "shards": 4, "checks": 200000, "timeout": 3000, "cpus": 2, "env": {"VERIF_FULL_CHANNEL": "1"}}],
        },
    },
    "C06": {
        "module": "batchproc", "level": "exploration",
        "technique": "stateful property-based testing (rapid scenarios in a synctest bubble) with a history invariant relating each Consume return (time, error) to the outcomes of the exports that carried its items; the thorough tier adds a coverage-guided native fuzz campaign that feeds the same scenario generator and oracle from the fuzzer's bytes (rapid.MakeFuzz)",
        "level_text": "Generated schedules x fault sequences: gated exports completed in any order with scripted ok/fail outcomes, cancels and deadlines at any step. Invariant: a non-early-return Consume returns only at a step by which every export carrying its items has returned; nil iff all of them succeeded; an error wraps the failure of a carrying export and never that of a non-carrying one; after its context ends it returns in the same virtual instant with the context error; items are delivered at most once; early_return returns nil at the enqueue instant; a caller still blocked after the cleanup phase is a lost response.",
        "design_ref": "DESIGN.md §6, §7 C06",
        "rule": BP_RULE % "NON-TRIVIAL = a request carried by >=2 exports with mixed outcomes, or a context that ended while its request was partially exported",
        "assumptions": BP_ASSUME + ["'wrapping the export failure' is read as: wraps at least one failed carrying export, and no non-carrying one"],
        "jobs": {
            "quick": [{"test": "TestC06", "shards": 10, "checks": 100000, "timeout": 600}, {"test": "TestC06", "shards": 3, "checks": 18000, "timeout": 600, "cpus": 2, "env": {"VERIF_FULL_CHANNEL": "1"}}],
            "thorough": [{"test": "TestC06", "shards": 16, "checks": 1600000, "timeout": 3000}, {"test": "FuzzScenario", "shards": 1, "checks": 0, "rapid": False, "fuzztime": "120s", "parallel": 6, "timeout": 1500}, {"test": "TestC06", "shards": 4, "checks": 200000, "timeout": 3000, "cpus": 2, "env": {"VERIF_FULL_CHANNEL": "1"}}],
        },
    },
    "C09": {
        "module": "batchproc", "level": "exploration",
        "technique": "stateful property-based testing on a virtual clock (synctest): invariants on export sizes, on the buffer at every quiescent point and on each item's export time vs its accept time; the thorough tier adds a coverage-guided native fuzz campaign that feeds the same scenario generator and oracle from the fuzzer's bytes (rapid.MakeFuzz)",
        "level_text": "Generated arrival timings on the component's own (virtual) clock with unlimited concurrency and auto-completing exports, so the concurrency limit cannot hold exports back: every export has 1..send_batch_max_size items; at every quiescent point fewer than send_batch_size items are buffered (none when timeout or size is 0); every item enters the next consumer no later than accept time + timeout (at the accept instant in the immediate modes). Upper bounds only.",
        "design_ref": "DESIGN.md §6, §7 C09",
        "rule": BP_RULE % "NON-TRIVIAL = a timer-triggered flush of a partial batch after a size-triggered flush",
        "assumptions": BP_ASSUME + ["deadline clauses are judged only with max_concurrency=0, auto-completing exports and no metadata keys"],
        "jobs": {
            "quick": [{"test": "TestC09", "shards": 10, "checks": 100000, "timeout": 600}],
            "thorough": [{"test": "TestC09", "shards": 16, "checks": 1600000, "timeout": 3000}, {"test": "FuzzScenario", "shards": 1, "checks": 0, "rapid": False, "fuzztime": "120s", "parallel": 6, "timeout": 1500}],
        },
    },
    "C10": {
        "module": "batchproc", "level": "exploration",
        "technique": "stateful property-based testing (rapid scenarios in a synctest bubble) with a history invariant on tenant purity, visible client metadata and admissions, plus a real-scheduler admission stress under -race; the thorough tier adds a coverage-guided native fuzz campaign that feeds the same scenario generator and oracle from the fuzzer's bytes (rapid.MakeFuzz)",
        "level_text": "Generated metadata key sets (mixed case), single/multi/empty/absent values, limits 0-3, sequential and racing first arrivals: every export carries items of one combination; client.Metadata seen by the export agrees with it on every configured key; admitted combinations <= limit; refusals are permanent and export nothing; for sequential arrivals a request is refused iff its combination is new and the limit is reached. The stress variant releases up to 24 goroutines with fresh combinations from a barrier on the real scheduler under the race detector.",
        "design_ref": "DESIGN.md §6, §7 C10",
        "rule": BP_RULE % "NON-TRIVIAL = metadata keys configured and >=2 exports (bubble) / every stress run; stress evaluations are counted per case, label stress_rounds counts rounds",
        "assumptions": BP_ASSUME + ["absent and empty-list metadata are the same combination (client.Metadata.Get returns nil for both); [\"\"] is distinct"],
        "jobs": {
            "quick": [{"test": "TestC10", "shards": 10, "checks": 100000, "timeout": 600}, {"test": "TestStressC10", "shards": 4, "checks": 160, "timeout": 600, "race": True}],
            "thorough": [{"test": "TestC10", "shards": 14, "checks": 1400000, "timeout": 3000}, {"test": "FuzzScenario", "shards": 1, "checks": 0, "rapid": False, "fuzztime": "120s", "parallel": 6, "timeout": 1500}, {"test": "TestStressC10", "shards": 4, "checks": 6000, "timeout": 3000, "race": True}],
        },
    },
    "C11": {
        "module": "batchproc", "level": "exploration",
        "technique": "stateful property-based testing (rapid scenarios in a synctest bubble) with in-flight/drain/leak/hang invariants, repeated under the race detector, plus a real-scheduler concurrency stress under -race; the thorough tier adds a coverage-guided native fuzz campaign that feeds the same scenario generator and oracle from the fuzzer's bytes (rapid.MakeFuzz)",
        "level_text": "Generated schedules with gated exports completed in arbitrary order, failures, cancels/deadlines anywhere, Shutdown while callers wait, max_concurrency 0-3: in-flight exports per combination <= max_concurrency at every export entry; after the cleanup phase Shutdown has returned, after every export returned and every accepted item was exported; no caller is blocked; no processor goroutine is left (stack scan of the bubble). The same family runs in a -race build (a race report ends the process and is reported with the scenario), and a real-scheduler stress with latencies and cancels checks the bound, the drain and the leak statistically.",
        "design_ref": "DESIGN.md §6, §7 C11",
        "rule": BP_RULE % "NON-TRIVIAL = gated scenario with >=2 exports (bubble) / every stress run",
        "assumptions": BP_ASSUME + ["no claim of exhaustiveness over interleavings; deadlock = still blocked in the virtual instant after everything was released"],
        "jobs": {
            "quick": [{"test": "TestC11", "shards": 8, "checks": 80000, "timeout": 600}, {"test": "TestC11", "shards": 3, "checks": 9000, "timeout": 600, "race": True}, {"test": "TestStressC11", "shards": 4, "checks": 80, "timeout": 600, "race": True}, {"test": "TestC11", "shards": 3, "checks": 18000, "timeout": 600, "cpus": 2, "env": {"VERIF_FULL_CHANNEL": "1"}}],
            "thorough": [{"test": "TestC11", "shards": 10, "checks": 1000000, "timeout": 3000}, {"test": "FuzzScenario", "shards": 1, "checks": 0, "rapid": False, "fuzztime": "120s", "parallel": 6, "timeout": 1500}, {"test": "TestC11", "shards": 4, "checks": 100000, "timeout": 3000, "race": True}, {"test": "TestStressC11", "shards": 4, "checks": 3000, "timeout": 3000, "race": True}, {"test": "TestC11", "shards": 4, "checks": 200000, "timeout": 3000, "cpus": 2, "env": {"VERIF_FULL_CHANNEL": "1"}}],
        },
    },
    "C18": {
        "module": "batchproc", "level": "exploration",
        "technique": "stateful property-based testing (rapid scenarios in a synctest bubble) with a history invariant on export contexts (ctx.Value markers, ctx.Err, outcome) and on spans recorded by an SDK TracerProvider; the thorough tier adds a coverage-guided native fuzz campaign that feeds the same scenario generator and oracle from the fuzzer's bytes (rapid.MakeFuzz)",
        "level_text": "Generated merges of requests from distinct contexts (2..n contributors, differing context first/middle/last, shared contexts, partial sends), cancels and deadlines on any subset at any step, a next consumer that honours cancellation: a multi-context export shows no caller's context value, its context never ends, it is not cancelled through its context, its span is a root with exactly one link per distinct contributing request span, each of which has a link back; a single-context export's span is a child of that request's span; a caller whose context is alive never receives a context error and its items are exported.",
        "design_ref": "DESIGN.md §6, §7 C18",
        "rule": BP_RULE % "NON-TRIVIAL = a multi-context export with exactly two contributing requests, or with the odd context last",
        "assumptions": BP_ASSUME + ["spans come from go.opentelemetry.io/otel/sdk with an in-memory SpanRecorder passed through processor.Settings"],
        "jobs": {
            "quick": [{"test": "TestC18", "shards": 10, "checks": 100000, "timeout": 600}],
            "thorough": [{"test": "TestC18", "shards": 16, "checks": 1600000, "timeout": 3000}, {"test": "FuzzScenario", "shards": 1, "checks": 0, "rapid": False, "fuzztime": "120s", "parallel": 6, "timeout": 1500}],
        },
    },
})

PROPS.update({
    "C17": {
        "module": "obfus", "level": "exploration",
        "technique": "property-based structural-equality + function/injection oracle (rapid) over generated documents and both modes, plus bulk enumeration/dense sampling of short-string length classes through one instance; the thorough tier adds a coverage-guided native fuzz campaign that feeds the same generator and oracle from the fuzzer's bytes (rapid.MakeFuzz)",
        "level_text": "Generated traces/logs/metrics with attributes of every value type (nested lists/maps), both modes (encrypt_all; encrypt_attributes with listed and unlisted keys present), 1-4 documents per processor instance with a pinned key (crypto/rand.Reader is replaced by a seeded reader): input and output trees are walked in parallel - same counts at every level, same order, same value types, non-targeted values equal - and every targeted string s is replaced by f(s) with len(f(s)) == len(s), f a function and injective over everything the instance saw. Bulk cases push all 256 one-byte strings, all 65,536 two-byte strings and 20-60k-string samples of longer classes through one instance.",
        "design_ref": "DESIGN.md §7 C17",
        "rule": "rapid draws (signal, mode, key seed, 1-4 documents from a pool of empty/1-byte/odd/even/non-ASCII/repeated strings); NON-TRIVIAL = >=2 targeted strings and, in list mode, at least one non-targeted value present; bulk cases are all non-trivial; DISTINCT = FNV-64 of (signal, mode, documents, bucketed targeted/non-targeted/distinct counts) resp. (length, as-bytes, key class)",
        "assumptions": [
            "targeted strings: in encrypt_all every attribute key and every string/byte-array value (recursively); in list mode entries whose key is listed (same rule for maps nested in a targeted value); for traces additionally scope name/version, span name, status message and event names in both modes (the repository's own tests expect this)",
            "string and byte-array renderings are treated as two substitution functions",
            "the known finding list-mode-key-collision is excluded by construction (unlisted keys never have the byte length of a listed key; counted) and probed separately",
        ],
        "jobs": {
            "quick": [{"test": "TestC17", "shards": 10, "checks": 100000, "timeout": 600}, {"test": "TestC17Bulk", "shards": 6, "checks": 36, "timeout": 600}],
            "thorough": [{"test": "TestC17", "shards": 12, "checks": 600000, "timeout": 3000}, {"test": "FuzzRapid", "shards": 1, "checks": 0, "rapid": False, "fuzztime": "120s", "parallel": 6, "timeout": 1500}, {"test": "TestC17Bulk", "shards": 4, "checks": 1200, "timeout": 3000}],
        },
    },
})

# Properties not claimed (yet), with the reason recorded in MANIFEST.not_applicable.
NOT_CLAIMED = {}
