#!/bin/bash
# Confirms a seeded change delivered by a sub-agent in its scratch worktree:
#   tools/confirm_seed.sh <worktree> <outdir>
# (1) the demo fails with the change, (2) passes without it, (3) the existing
# tests of the touched module pass with the change (demo moved aside).
WT=$1; OUT=$2
GO="env -u GOFLAGS -u GOPROXY -u GOSUMDB -u GOTOOLCHAIN go"
loc=$(python3 -c "import json;print(json.load(open('$OUT/meta.json'))['demo_location'])")
cd $WT || exit 2
# which module?
case "$(head -1 $OUT/patch.diff | sed 's/.* b\///')" in
  collector/processor/concurrentbatchprocessor/*) MOD=collector/processor/concurrentbatchprocessor; PK=./...;;
  collector/processor/obfuscationprocessor/*) MOD=collector/processor/obfuscationprocessor; PK=./...;;
  *) MOD=.; PK="./pkg/otel/... ./pkg/arrow/...";;
esac
git checkout -q -- . ; git apply $OUT/patch.diff || { echo "CONFIRM patch does not apply"; exit 2; }
demodir=$WT/$loc; [ -d "$demodir" ] || demodir=$WT/$MOD/$loc
cp $OUT/zz_seeded_demo_test.go $demodir/zz_seeded_demo_test.go
rel=$(python3 -c "import os;print(os.path.relpath('$demodir','$WT/$MOD'))")
cd $WT/$MOD
$GO test -mod=mod -vet=off -count=1 -run 'Seeded|seeded|ZZ' ./$rel > /tmp/confirm_$$.with 2>&1; with=$?
git -C $WT apply -R $OUT/patch.diff
$GO test -mod=mod -vet=off -count=1 -run 'Seeded|seeded|ZZ' ./$rel > /tmp/confirm_$$.without 2>&1; without=$?
git -C $WT apply $OUT/patch.diff
mv $demodir/zz_seeded_demo_test.go /tmp/confirm_$$.demo
$GO build ./... > /tmp/confirm_$$.build 2>&1; build=$?
$GO test -mod=mod -vet=off -count=1 $PK > /tmp/confirm_$$.suite 2>&1; suite=$?
cp /tmp/confirm_$$.demo $demodir/zz_seeded_demo_test.go
echo "CONFIRM $(basename $WT): demo_with_change_exit=$with (want !=0) demo_without_exit=$without (want 0) build=$build suite_with_change_exit=$suite (want 0)"
grep -E "^(FAIL|ok|---)" /tmp/confirm_$$.suite | grep -v "^ok" | head -5
rm -f /tmp/confirm_$$.*
