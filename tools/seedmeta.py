#!/usr/bin/env python3
"""Completes seeded/<name>/meta.json after confirmation:
     tools/seedmeta.py <name> <round> "<detection text>" [<property checked>]"""
import json, os, sys
name, rnd, detection = sys.argv[1:4]
root = os.path.dirname(os.path.dirname(os.path.abspath(__file__)))
p = os.path.join(root, "seeded", name, "meta.json")
m = json.load(open(p))
pid = sys.argv[4] if len(sys.argv) > 4 else m.get("property", name[:3])
m["confirmed_by_me"] = {
    "ran": "tools/confirm_seed.sh in the scratch worktree: demo fails with the change, passes with the patch reverse-applied, go build ok, existing tests of the touched module pass with the change",
    "result": "confirmed"}
m["detection"] = detection
m["how_checked"] = "./seedcheck seeded/%s/patch.diff %s quick" % (name, pid)
m["round"] = rnd
json.dump(m, open(p, "w"), indent=1)
open(p, "a").write("\n")
