#!/usr/bin/env python3
"""Prepares a seeding task for a fresh sub-agent (DESIGN.md §8):
     tools/mkseed.py <name> <property id> "<already used>" "<ideas>"
   creates the scratch worktree /tmp/seed/<name> (detached HEAD of /repo), the
   output directory /tmp/seed/<name>.out and the prompt /tmp/seed/<name>.prompt,
   which contains the property text and nothing from /verif."""
import json, os, subprocess, sys
name, pid, used, ideas = sys.argv[1:5]
root = os.path.dirname(os.path.dirname(os.path.abspath(__file__)))
prop = next(p for p in map(json.loads, open(os.path.join(root, "properties.jsonl"))) if p["id"] == pid)
wt, out = "/tmp/seed/" + name, "/tmp/seed/" + name + ".out"
os.makedirs(out, exist_ok=True)
subprocess.check_call(["git", "-C", "/repo", "worktree", "add", "--detach", wt, "HEAD"], stdout=subprocess.DEVNULL)
text = "PROPERTY %s: %s\n\nSTATEMENT: %s\n\nQUANTIFIED OVER: %s\n\nRELEVANT FILES: %s\n" % (
    pid, prop["title"], prop["statement"], prop["quantifier"]["text"], ", ".join(prop["anchors"]["files"]))
tpl = open(os.path.join(root, "tools", "seed_prompt_template.txt")).read()
p = tpl.format(WT=wt, OUT=out, PID=pid, PROP=text)
p += ("\n\nEXTRA CONSTRAINT: Make it HARD to find for a randomised property-based test with sensible generic generators: "
      "the trigger should require a specific deep state, a rare coincidence of values, a particular long history, or a narrow "
      "boundary (but it must still be a valid input/schedule inside the property's stated domain, and your demonstration must "
      "trigger it deterministically). Avoid the mechanisms listed as already used. Already used: %s. Ideas: %s\n"
      "\nSIDE NOTE REQUEST: if, while studying the code, you notice an input/history for which the UNCHANGED code already violates "
      "the property (a genuine pre-existing defect inside the stated domain), describe it precisely at the end of your reply under "
      "the heading UNSEEDED FINDINGS and, if cheap, add a second test function named TestUnseededFinding... to a separate file "
      "%s/zz_unseeded_test.go (not part of the deliverables above). Do not spend more than a fifth of your effort on this.\n") % (used, ideas, out)
open("/tmp/seed/%s.prompt" % name, "w").write(p)
print(wt)
