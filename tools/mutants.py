#!/usr/bin/env python3
"""Sensitivity testing with planted mutations (DESIGN.md §8).

  tools/mutants.py [name-substring ...]     run the selected mutants (default: all)

Each mutant is a string substitution in one file of /repo plus the property
checks that must catch it. The tool applies it to /repo's working tree (must be
clean), runs `./check <ID> quick`, records CAUGHT/MISSED and the wall time, and
restores the tree (git checkout) - also on error. Results are appended to
tools/mutants.log.
"""
import os, subprocess, sys, time, json

ROOT = os.path.dirname(os.path.dirname(os.path.abspath(__file__)))
BP = "collector/processor/concurrentbatchprocessor/"
OB = "collector/processor/obfuscationprocessor/"

def S(name, file, old, new, props, count=1):
    return {"name": name, "file": file, "old": old, "new": new, "props": props, "count": count}


MUTANTS = [
    S("c01-swap-dropped-events-links-counts", "pkg/otel/traces/arrow/traces.go",
      "b.decb.AppendNonZero(span.Span.DroppedEventsCount())", "b.decb.AppendNonZero(span.Span.DroppedLinksCount())", ["C01"]),
    S("c01-link-trace-state-lost-when-first-empty", "pkg/otel/traces/arrow/traces.go",
      "b.tsb.AppendNonEmpty(span.Span.TraceState().AsRaw())", "if spanID > 0 || span.Span.TraceState().AsRaw() != \"\" {\n\t\t\tb.tsb.AppendNonEmpty(span.Span.TraceState().AsRaw())\n\t\t} else {\n\t\t\tb.tsb.AppendNull()\n\t\t}", ["C01"]),
    S("c02-log-flags-nonzero-dropped-when-256", "pkg/otel/logs/arrow/logs.go",
      "b.fb.Append(uint32(log.Flags()))", "b.fb.Append(uint32(log.Flags()) & 0xffffff)", ["C02"]),
    S("c03-lose-is-monotonic-false-after-true", "pkg/otel/metrics/arrow/metrics.go",
      "b.imb.Append(sum.IsMonotonic())", "b.imb.Append(sum.IsMonotonic() && sum.DataPoints().Len() > 0)", ["C03"]),
    S("c04-dict-justreset-never-cleared", "pkg/otel/common/schema/transform/dictionary.go",
      "\tt.justReset = false\n", "", ["C04", "C13"]),
    S("c13-overflow-check-off", "pkg/otel/common/schema/transform/dictionary.go",
      "for t.currentIndex < len(t.indexTypes) && t.cardinality > t.indexMaxCard[t.currentIndex] {", "for t.currentIndex < len(t.indexTypes)-1 && t.cardinality > t.indexMaxCard[t.currentIndex] {", ["C13"]),
    S("c07-payload-count-check-removed", "pkg/otel/arrow_record/consumer.go",
      "if len(ibes) < len(bar.ArrowPayloads) {", "if false && len(ibes) < len(bar.ArrowPayloads) {", ["C07"]),
    S("c07-revert-related-error-traces", "pkg/otel/arrow_record/consumer.go",
      "relatedData, tracesRecord, err := tracesotlp.RelatedDataFrom(records, c.tracesConfig)\n\tif err != nil {\n\t\treturn nil, werror.Wrap(err)\n\t}", "relatedData, tracesRecord, err := tracesotlp.RelatedDataFrom(records, c.tracesConfig)", ["C07"]),
    S("c07-d14-records-not-retained", "pkg/otel/arrow_record/consumer.go",
      "\tretainRecords(records)\n\tdefer releaseRecords(records)\n", "", ["C07"], count=3),
    S("c07-d18-missing-main-record-is-success", "pkg/otel/arrow_record/consumer.go",
      "if tracesRecord == nil && len(records) > 0 {", "if false && tracesRecord == nil && len(records) > 0 {", ["C07"]),
    S("c08-remove-spanid-guard", "pkg/otel/traces/arrow/traces.go",
      "if spanID == math.MaxUint16 {\n\t\t\t\treturn werror.Wrap(acommon.ErrTooManyParents)\n\t\t\t}\n", "", ["C08"]),
    S("c12-batchid-incremented-on-error-too", "pkg/otel/arrow_record/producer.go",
      "\toapl := make([]*colarspb.ArrowPayload, len(rms))\n", "\toapl := make([]*colarspb.ArrowPayload, len(rms))\n\tif len(rms) > 6 {\n\t\tp.batchId++\n\t}\n", ["C12"]),
    S("c12-main-record-last", "pkg/otel/arrow_record/producer.go",
      "rms = append([]*record_message.RecordMessage{record_message.NewLogsMessage(schemaID, record)}, rms...)", "rms = append(rms, record_message.NewLogsMessage(schemaID, record))", ["C12"]),
    S("c14-limit-error-is-false", "pkg/otel/common/arrow/allocator.go",
      "\t_, ok := tgt.(LimitError)\n\treturn ok", "\t_, ok := tgt.(*LimitError)\n\treturn ok", ["C14"]),
    S("c14-allocate-may-exceed-limit-by-a-page", "pkg/otel/common/arrow/allocator.go",
      "func (l *LimitedAllocator) Allocate(size int) []byte {\n\tchange := uint64(size)\n\tif l.inuse+change > l.limit {", "func (l *LimitedAllocator) Allocate(size int) []byte {\n\tchange := uint64(size)\n\tif l.inuse+change > l.limit+4096 {", ["C14"]),
    S("c15-forget-release-on-rebuild", "pkg/otel/common/schema/builder/record.go",
      "\tif !rb.IsSchemaUpToDate() {\n\t\trecord.Release()\n\t\trb.UpdateSchema()", "\tif !rb.IsSchemaUpToDate() {\n\t\trb.UpdateSchema()", ["C15"]),
    S("c15-optimizer-sorts-input", "pkg/otel/logs/arrow/optimizer.go",
      "func (t *LogsOptimizer) Optimize(logs plog.Logs) *LogsOptimized {", "func (t *LogsOptimizer) Optimize(logs plog.Logs) *LogsOptimized {\n\tif logs.ResourceLogs().Len() > 2 {\n\t\tlogs.ResourceLogs().At(0).SetSchemaUrl(logs.ResourceLogs().At(0).SchemaUrl())\n\t\tlogs.ResourceLogs().Sort(func(a, b plog.ResourceLogs) bool { return a.SchemaUrl() < b.SchemaUrl() })\n\t}", ["C15"]),
    # --- batch processor ---------------------------------------------------
    S("c05-spancount-off-by-one-on-split", BP + "batch_processor.go",
      "\t\tbt.spanCount -= sendBatchMaxSize\n", "\t\tbt.spanCount -= sendBatchMaxSize - 1\n", ["C05", "C06"]),
    S("c05-d17-metric-metadata-not-copied", BP + "splitmetrics.go",
      "\tms.Metadata().CopyTo(dest.Metadata())\n", "", ["C05"]),
    S("c05-skip-shutdown-flush", BP + "batch_processor.go",
      "\t\t\t// This is the close of the channel\n\t\t\tif b.batch.itemCount() > 0 {", "\t\t\t// This is the close of the channel\n\t\t\tif b.batch.itemCount() > b.processor.sendBatchSize {", ["C05", "C11"]),
    S("c06-numitems-miscount", BP + "batch_processor.go",
      "\t\t\tnumItems -= cntErr.count\n", "\t\t\tif cntErr.err != nil && cntErr.count > 1 {\n\t\t\t\tnumItems++\n\t\t\t}\n\t\t\tnumItems -= cntErr.count\n", ["C06", "C11"]),
    S("c06-drop-errors-join", BP + "batch_processor.go",
      "\t\t\t\terr = errors.Join(err, cntErr)\n", "\t\t\t\tif err == nil {\n\t\t\t\t\terr = cntErr\n\t\t\t\t}\n", ["C06"]),
    S("c06-error-only-to-first-contributor", BP + "batch_processor.go",
      "\t\t\t\tcase pending.waiter <- countedError{err: err, count: pending.count}:", "\t\t\t\tcase pending.waiter <- countedError{err: firstOnly(err, pending.waiter == thisBatch[0].waiter), count: pending.count}:", ["C06"]),
    S("c09-flush-gt-instead-of-ge", BP + "batch_processor.go",
      "(!b.hasTimer() || b.batch.itemCount() >= b.processor.sendBatchSize)", "(!b.hasTimer() || b.batch.itemCount() > b.processor.sendBatchSize)", ["C09"]),
    S("c09-no-timer-reset-after-timer-flush", BP + "batch_processor.go",
      "\t\t\t\tb.sendItems(triggerTimeout)\n\t\t\t}\n\t\t\tb.resetTimer()", "\t\t\t\tb.sendItems(triggerTimeout)\n\t\t\t} else {\n\t\t\t\tb.resetTimer()\n\t\t\t}", ["C09"]),
    S("c09-split-takes-max-plus-one", BP + "batch_processor.go",
      "\t\treq = splitLogs(sendBatchMaxSize, bl.logData)\n\t\tbl.logCount -= sendBatchMaxSize\n\t\tsent = sendBatchMaxSize", "\t\treq = splitLogs(sendBatchMaxSize+1, bl.logData)\n\t\tbl.logCount -= sendBatchMaxSize + 1\n\t\tsent = sendBatchMaxSize + 1", ["C09"]),
    S("c10-limit-check-outside-lock", BP + "batch_processor.go",
      "\t\tsb.lock.Lock()\n\t\tif sb.processor.metadataLimit != 0 && sb.size >= sb.processor.metadataLimit {\n\t\t\tsb.lock.Unlock()\n\t\t\treturn errTooManyBatchers\n\t\t}\n", "\t\tif sb.processor.metadataLimit != 0 && sb.currentMetadataCardinality() >= sb.processor.metadataLimit {\n\t\t\treturn errTooManyBatchers\n\t\t}\n\t\tsb.lock.Lock()\n", ["C10"]),
    S("c10-metadata-from-all-keys-of-first-request", BP + "batch_processor.go",
      "\t\tvs := info.Metadata.Get(k)\n\t\tmd[k] = vs\n", "\t\tvs := info.Metadata.Get(k)\n\t\tif len(vs) > 1 {\n\t\t\tmd[k] = vs[:1]\n\t\t} else {\n\t\t\tmd[k] = vs\n\t\t}\n", ["C10"]),
    S("c11-release-before-export", BP + "batch_processor.go",
      "\t\tif b.processor.sem != nil {\n\t\t\tdefer b.processor.sem.Release(1)\n\t\t}\n", "\t\tif b.processor.sem != nil {\n\t\t\tb.processor.sem.Release(1)\n\t\t}\n", ["C11"]),
    S("c11-no-ctx-done-arm-in-response", BP + "batch_processor.go",
      "\t\t\t\tcase <-pending.ctx.Done():\n\t\t\t\t\t// OK! Caller context was canceled.\n", "\t\t\t\tcase <-neverDone(pending.ctx):\n\t\t\t\t\t// OK! Caller context was canceled.\n", ["C11", "C06"]),
    S("c18-revert-allsamecontext", BP + "batch_processor.go",
      "if x[idx+1].ctx != x[0].ctx {", "if x[idx].ctx != x[0].ctx {", ["C18"]),
    S("c18-always-first-callers-context-when-small", BP + "batch_processor.go",
      "\t\tisSingleCtx := allSameContext(thisBatch)\n", "\t\tisSingleCtx := allSameContext(thisBatch) || (len(thisBatch) == 3 && thisBatch[0].ctx == thisBatch[1].ctx)\n", ["C18"]),
    S("c18-parentspans-without-dedup", BP + "batch_processor.go",
      "\t\t_, ok := unique[x[i].ctx]\n\t\tif ok {\n\t\t\tcontinue\n\t\t}\n", "", ["C18"]),
    S("c05-revert-schema-url-scope-logs", BP + "splitlogs.go",
      "\t\t\tdestIll.SetSchemaUrl(srcIll.SchemaUrl())\n", "", ["C05"]),
    # --- obfuscation ---------------------------------------------------------
    S("c17-revert-d10", OB + "processor.go",
      "\t\t\t\tvalue.CopyTo(cpy.PutEmpty(k))\n", "", ["C17"]),
    S("c17-nested-list-strings-not-obfuscated-beyond-first", OB + "processor.go",
      "\t\tcase pcommon.ValueTypeStr:\n\t\t\tcpyVal.SetStr(o.encryptString(val.Str()))", "\t\tcase pcommon.ValueTypeStr:\n\t\t\tif i > 2 {\n\t\t\t\tcpyVal.SetStr(val.Str())\n\t\t\t} else {\n\t\t\t\tcpyVal.SetStr(o.encryptString(val.Str()))\n\t\t\t}", ["C17"]),
]

# helper functions some mutants reference (appended to the mutated file)
HELPERS = {
    "firstOnly(": "\nfunc firstOnly(err error, first bool) error {\n\tif first {\n\t\treturn err\n\t}\n\treturn nil\n}\n",
    "neverDone(": "\nfunc neverDone(context.Context) <-chan struct{} { return nil }\n",
}


def sh(*a, **k):
    return subprocess.run(list(a), capture_output=True, text=True, **k)


def restore():
    sh("git", "-C", "/repo", "checkout", "--", ".")


def main():
    sel = sys.argv[1:]
    tier = os.environ.get("MUT_TIER", "quick")
    if sh("git", "-C", "/repo", "status", "--porcelain").stdout.strip():
        print("refusing: /repo working tree is not clean")
        return 2
    log = open(os.path.join(ROOT, "tools", "mutants.log"), "a")
    for m in MUTANTS:
        if sel and not any(s in m["name"] for s in sel):
            continue
        path = os.path.join("/repo", m["file"])
        src = open(path).read()
        if src.count(m["old"]) != m["count"]:
            print("SKIP    %s: pattern occurs %d times in %s (expected %d)" % (m["name"], src.count(m["old"]), m["file"], m["count"]))
            continue
        new = src.replace(m["old"], m["new"])
        for k, v in HELPERS.items():
            if k in m["new"]:
                new += v
        try:
            open(path, "w").write(new)
            for pid in m["props"]:
                t0 = time.time()
                p = sh(os.path.join(ROOT, "check"), pid, tier, cwd=ROOT)
                dt = time.time() - t0
                viol = [l for l in p.stdout.splitlines() if l.startswith("VIOLATION")]
                detail = [l.strip() for l in p.stdout.splitlines() if l.startswith("    ")][:2]
                if p.returncode == 1 and viol:
                    res = "CAUGHT"
                elif p.returncode == 0:
                    res = "MISSED"
                else:
                    res = "BROKEN(exit %d)" % p.returncode
                    detail = p.stdout.splitlines()[-6:]
                line = "%-8s %-55s %s %s %.0fs  %s" % (res, m["name"], pid, tier, dt, " | ".join(detail)[:260])
                print(line, flush=True)
                log.write(time.strftime("%F %T ") + line + "\n")
                log.flush()
        finally:
            restore()
    left = sh("git", "-C", "/repo", "status", "--porcelain").stdout.strip()
    if left:
        print("WARNING: /repo not clean after restore:\n" + left)
    return 0


if __name__ == "__main__":
    sys.exit(main())
